#!/venv/bin/python
"""Regenerate section 10's table in DESIGN.md (between the SEEDED-TABLE markers) from seeded/*/meta.json + RESULTS.json."""
import json, os, re, glob
V = os.path.dirname(os.path.dirname(os.path.abspath(__file__)))
res = json.load(open(os.path.join(V, "seeded", "RESULTS.json")))
rows = ["| seeded change | what was changed (sub-agent's summary) | needs | caught by `./check <prop> quick` | signature(s) |", "|---|---|---|---|---|"]
for d in sorted(glob.glob(os.path.join(V, "seeded", "C*-*"))):
    name = os.path.basename(d)
    try:
        m = json.load(open(os.path.join(d, "meta.json")))
    except Exception:
        m = {}
    r = res.get(name, {})
    def cut(s, n):
        s = " ".join(str(s).split()).replace("|", "/")
        return s if len(s) <= n else s[: n - 3] + "..."
    sigs = sorted({s.rstrip(":") for s in r.get("signatures", [])})
    rows.append(f"| {name} | {cut(m.get('summary', ''), 230)} | {cut(m.get('needs', ''), 200)} | {'**yes**' if r.get('caught') else ('NO' if r else 'not run')} | {', '.join('`'+s+'`' for s in sigs[:3])} |")
table = "\n".join(rows)
p = os.path.join(V, "DESIGN.md")
s = open(p).read()
s = re.sub(r"<!-- SEEDED-TABLE-BEGIN -->.*<!-- SEEDED-TABLE-END -->", lambda m: "<!-- SEEDED-TABLE-BEGIN -->\n" + table + "\n<!-- SEEDED-TABLE-END -->", s, flags=re.S)
open(p, "w").write(s)
caught = sum(1 for n in res if res[n].get("caught"))
print(f"{caught}/{len(res)} caught; table rows {len(rows) - 2}")
