#!/bin/bash
# tools/accept_seed.sh <PROP> <mutN> [name]
# Independently confirm a seeded change produced by a sub-agent, in the agent's scratch worktree (never in /repo):
#   clean tree: demo passes;  patched tree: package imports, the full existing test-suite passes, demo fails.
# On success the change is stored as /verif/seeded/<PROP>-<name>/ (patch.diff, demo.py, meta.json + what was run).
set -u
P=$1; M=$2; NAME=${3:-$M}
WT=/tmp/wt/$P; SRC=/tmp/wt/${P}_out/$M; DST=/verif/seeded/$P-$NAME
[ -f $SRC/patch.diff ] && [ -f $SRC/demo.py ] || { echo "REJECT $P/$M: deliverables missing"; exit 1; }
git -C $WT checkout -q -- . && git -C $WT clean -fdq -e '*.pyc' >/dev/null 2>&1
[ -z "$(git -C $WT status --porcelain)" ] || { echo "REJECT $P/$M: worktree not clean"; exit 1; }
cp $SRC/demo.py $WT/_demo.py
( cd $WT && timeout 600 /venv/bin/python _demo.py >/tmp/wt/${P}_out/$M/demo_clean.log 2>&1 ); RC_CLEAN=$?
git -C $WT apply $SRC/patch.diff || { echo "REJECT $P/$M: patch does not apply"; rm -f $WT/_demo.py; exit 1; }
( cd $WT && timeout 600 /venv/bin/python _demo.py >/tmp/wt/${P}_out/$M/demo_patched.log 2>&1 ); RC_PATCHED=$?
( cd $WT && timeout 1500 /venv/bin/python -m pytest -q -p no:cacheprovider --timeout=900 -x >/tmp/wt/${P}_out/$M/tests_patched.log 2>&1 ); RC_TESTS=$?
SUMMARY=$(tail -1 /tmp/wt/${P}_out/$M/tests_patched.log)
git -C $WT checkout -q -- .; rm -f $WT/_demo.py
if [ $RC_CLEAN -eq 0 ] && [ $RC_PATCHED -ne 0 ] && [ $RC_TESTS -eq 0 ]; then
  mkdir -p $DST && cp $SRC/patch.diff $SRC/demo.py $DST/
  /venv/bin/python - "$SRC/meta.json" "$DST/meta.json" "$SUMMARY" <<'PY'
import json,sys
try: m=json.load(open(sys.argv[1]))
except Exception as e: m={"note":"agent meta.json unreadable: %s"%e}
m["confirmed"]={"clean_tree_demo":"exit 0","patched_tree_demo":"non-zero exit","patched_tree_tests":sys.argv[3],
  "commands":["cd <worktree> && /venv/bin/python demo.py (clean and patched)","cd <worktree> && /venv/bin/python -m pytest -q -p no:cacheprovider --timeout=900 -x (patched)"]}
json.dump(m,open(sys.argv[2],"w"),indent=1)
PY
  echo "ACCEPT $P/$M -> $DST ($SUMMARY)"
else
  echo "REJECT $P/$M: demo clean rc=$RC_CLEAN patched rc=$RC_PATCHED tests rc=$RC_TESTS ($SUMMARY)"; exit 1
fi
