#!/venv/bin/python
"""Regenerate /verif/MANIFEST.json from the check modules (single source of truth for level/technique texts)."""
import importlib
import json
import os
import sys

HERE = os.path.dirname(os.path.dirname(os.path.abspath(__file__)))
sys.path.insert(0, HERE)
ALL = [f"C{n:02d}" for n in range(1, 21)]
BASELINE = "cd /repo && /venv/bin/python -m pytest -ra -q -p no:cacheprovider --timeout=900 --continue-on-collection-errors"


def main():
    checks, na = [], []
    for pid in ALL:
        path = os.path.join(HERE, "vmc", "checks", pid.lower() + ".py")
        if not os.path.exists(path):
            na.append({"property_id": pid, "reason": "check not built yet in this round (bounded exhaustive exploration is applicable; see DESIGN.md section 4)"})
            continue
        mod = importlib.import_module(f"vmc.checks.{pid.lower()}")
        checks.append(
            {
                "property_id": pid,
                "quick_cmd": f"./check {pid} quick",
                "thorough_cmd": f"./check {pid} thorough",
                "evidence_file": f"/verif/evidence/{pid}.json",
                "replay_cmd_template": "./check replay {path}",
                "engine": "vmc",
                "level_claimed": {
                    "category": mod.LEVEL,
                    "text": getattr(mod, "LEVEL_TEXT", mod.RULE),
                    "design_ref": f"DESIGN.md section 4, {pid}",
                },
                "level_note": getattr(mod, "LEVEL_NOTE", "; ".join(getattr(mod, "ASSUMPTIONS", []))),
                "technique": getattr(mod, "TECHNIQUE", "bounded exhaustive enumeration (explicit-state BFS over a construction automaton) executed against the real code and compared with an independent reference model"),
            }
        )
    hooks_commits = []
    hc = os.path.join(HERE, "hook_commits.txt")
    if os.path.exists(hc):
        hooks_commits = [l.split()[0] for l in open(hc) if l.strip() and not l.startswith("#")]
    manifest = {
        "version": 1,
        "setup_cmd": "./check selftest",
        "hooks": {
            "guard": "DISSECT_COBALTSTRIKE_VERIF",
            "enable": "none needed: the checks import /repo through the editable install of /venv and drive module-level seams (io.DEFAULT_BUFFER_SIZE, random.*, client.time.*, client.httpx.request, Crypto.Random.get_random_bytes) from outside; ./check exports DISSECT_COBALTSTRIKE_VERIF=1 but no source line reads it",
            "baseline_off_cmd": BASELINE,
            "source_commits": hooks_commits,
            "add_only": True,
        },
        "engines": [
            {
                "name": "vmc",
                "path": "/verif/vmc",
                "serves_properties": [c["property_id"] for c in checks],
                "kind_free_text": "hand-written explicit-state / bounded-exhaustive explorer for Python (BFS kernel, deviation-set enumerator, history explorer replaying on fresh real objects), 16-process runner, independent reference models under vmc/ref",
            }
        ],
        "checks": checks,
        "notes": "Every check enumerates a stated finite space completely (no sampling); VERIF_SEED only permutes data constants outside the property. Genuine defects found are listed in known_findings.json (fixed entries suppress nothing).",
        "not_applicable": na,
    }
    with open(os.path.join(HERE, "MANIFEST.json"), "w") as f:
        json.dump(manifest, f, indent=1)
        f.write("\n")
    print(f"MANIFEST.json: {len(checks)} checks, {len(na)} not_applicable")


if __name__ == "__main__":
    main()
