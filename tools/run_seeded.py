#!/venv/bin/python
"""Run the quick tier of the relevant check (and optionally all checks) against every seeded change.

For each /verif/seeded/<id>/patch.diff: `git -C /repo apply`, run `./check <property> quick`, record the exit code and
the violation signatures, then `git -C /repo checkout -- .`. Never commits anything to /repo. Writes
/verif/seeded/RESULTS.json and prints a markdown table (used in DESIGN.md section 9)."""
import json, os, re, subprocess, sys, time

VERIF = os.path.dirname(os.path.dirname(os.path.abspath(__file__)))
SEEDED = os.path.join(VERIF, "seeded")


def sh(cmd, **kw):
    return subprocess.run(cmd, shell=True, capture_output=True, text=True, **kw)


def main():
    only = sys.argv[1:]
    assert sh("git -C /repo status --porcelain").stdout.strip() == "", "/repo must be clean"
    results = {}
    rp = os.path.join(SEEDED, "RESULTS.json")
    if os.path.exists(rp):
        results = json.load(open(rp))
    for name in sorted(os.listdir(SEEDED)):
        d = os.path.join(SEEDED, name)
        if not os.path.isfile(os.path.join(d, "patch.diff")) or (only and not any(o in name for o in only)):
            continue
        prop = name.split("-")[0]
        r = sh(f"git -C /repo apply {d}/patch.diff")
        if r.returncode:
            results[name] = {"property": prop, "error": "patch does not apply: " + r.stderr[:200]}
            continue
        try:
            t = time.time()
            env = dict(os.environ, VERIF_SEED=os.environ.get("VERIF_SEED", "0"), VERIF_EVIDENCE_DIR="/tmp/verif_seeded/evidence", VERIF_REPLAY_DIR="/tmp/verif_seeded/replays")
            c = sh(f"cd {VERIF} && timeout 1700 ./check {prop} quick", env=env)
            sigs = re.findall(r"signature=(\S+)", c.stderr)
            results[name] = {"property": prop, "check_exit": c.returncode, "violations": len(re.findall(r"^VIOLATION", c.stdout, re.M)), "signatures": sigs[:6], "wall_s": round(time.time() - t, 1), "caught": c.returncode == 1}
        finally:
            sh("git -C /repo checkout -- .")
        print(name, results[name].get("caught"), results[name].get("signatures"), flush=True)
        json.dump(results, open(rp, "w"), indent=1, sort_keys=True)
    print("\n| seeded change | property | caught by quick tier | first signatures |\n|---|---|---|---|")
    for n, r in sorted(results.items()):
        print(f"| {n} | {r['property']} | {'yes' if r.get('caught') else 'NO'} | {', '.join(r.get('signatures', [])[:2]) or r.get('error', '')} |")
    # leave evidence files as produced on the clean tree: the caller re-runs the checks afterwards
    return 0


if __name__ == "__main__":
    sys.exit(main())
