"""Explorer kernel: bounded exhaustive enumeration primitives.

Everything here is deterministic and simplest-first, so the first counter-example found is also the shortest.
Nothing in this module touches the implementation under test; the check modules supply the callbacks.

    bfs(root, children, canon, depth)      breadth-first search over a construction automaton / state graph
    deviation_sets(points, k)              every set of <= k deviations exactly once, fewest deviations first
    HistoryExplorer                        state = the event history reaching it, replayed on fresh real objects
    sequences(alphabet, max_len)           all words up to a length bound in length-then-lexicographic order
"""

from __future__ import annotations

import collections
import itertools
from typing import Any, Callable, Hashable, Iterable, Iterator, List, Optional, Sequence, Tuple


class Stats:
    """Counts a search measured (never constants): distinct states, edges followed, deepest level reached."""

    __slots__ = ("states", "transitions", "max_depth", "capped")

    def __init__(self):
        self.states = 0
        self.transitions = 0
        self.max_depth = 0
        self.capped = False

    def as_dict(self):
        return {
            "states": self.states,
            "transitions": self.transitions,
            "max_depth": self.max_depth,
            "capped": self.capped,
        }


def bfs(
    root: Any,
    children: Callable[[Any], Iterable[Tuple[Any, Any]]],
    canon: Callable[[Any], Hashable] = lambda n: n,
    depth: int = 3,
    stats: Optional[Stats] = None,
    cap: Optional[int] = None,
) -> Iterator[Tuple[Tuple[Any, ...], Any]]:
    """Yield (path_of_labels, node) for every distinct node within `depth` edges of `root`, breadth first.

    `children(node)` returns ordered (label, node) pairs, simplest first. Nodes are de-duplicated on canon(node);
    the caller owns the correctness argument for canon (a too-coarse canon hides behaviour, a too-fine one only
    costs time). If `cap` distinct states are reached the search stops and stats.capped is set - a capped search
    must never be reported as exhaustive.
    """
    stats = stats if stats is not None else Stats()
    seen = {canon(root)}
    stats.states += 1
    frontier = collections.deque([((), root, 0)])
    yield (), root
    while frontier:
        path, node, d = frontier.popleft()
        if d >= depth:
            continue
        for label, child in children(node):
            stats.transitions += 1
            k = canon(child)
            if k in seen:
                continue
            if cap is not None and stats.states >= cap:
                stats.capped = True
                return
            seen.add(k)
            stats.states += 1
            stats.max_depth = max(stats.max_depth, d + 1)
            cpath = path + (label,)
            frontier.append((cpath, child, d + 1))
            yield cpath, child


def deviation_sets(points: Sequence[Any], k: int) -> Iterator[Tuple[Any, ...]]:
    """All subsets of `points` with at most k elements: the empty set first, then singletons, then pairs ...

    `points` is an ordered sequence of (position, alternative) deviations; a set is emitted as a tuple in point
    order, so every set is produced exactly once (children only add a deviation at a strictly later point).
    """
    for size in range(0, k + 1):
        yield from itertools.combinations(points, size)


def sequences(alphabet: Sequence[Any], max_len: int, min_len: int = 0) -> Iterator[Tuple[Any, ...]]:
    """All words over `alphabet` with min_len <= length <= max_len, shortest first, then in alphabet order."""
    for n in range(min_len, max_len + 1):
        yield from itertools.product(alphabet, repeat=n)


class HistoryExplorer:
    """Explicit-state search where a state *is* the event history reaching it.

    build(history) -> fresh real objects with the handlers replayed (live objects are never copied)
    events(state, history) -> ordered menu of events enabled in that state
    canon(state) -> hashable canonical form (only used when merge=True)
    check(history, state) -> None or a violation description; evaluated in every state

    merge=True de-duplicates on canon(state): sound only when canon captures everything the future can depend on
    (each check states its argument). merge=False explores every history up to `depth` (the cross-check pass).
    """

    def __init__(self, build, events, check, canon=None, merge=False, depth=3, cap=None):
        self.build = build
        self.events = events
        self.check = check
        self.canon = canon
        self.merge = merge and canon is not None
        self.depth = depth
        self.cap = cap
        self.stats = Stats()

    def run(self) -> Iterator[Tuple[Tuple[Any, ...], Any, Any]]:
        """Yield (history, state, violation_or_None) for every explored state."""
        st = self.stats
        root = self.build(())
        seen = set()
        if self.merge:
            seen.add(self.canon(root))
        st.states += 1
        yield (), root, self.check((), root)
        frontier = collections.deque([()])
        while frontier:
            hist = frontier.popleft()
            if len(hist) >= self.depth:
                continue
            state = self.build(hist) if hist else root
            for ev in self.events(state, hist):
                nhist = hist + (ev,)
                nxt = self.build(nhist)
                st.transitions += 1
                bad = self.check(nhist, nxt)
                if self.merge:
                    k = self.canon(nxt)
                    if k in seen:
                        if bad is not None:
                            yield nhist, nxt, bad
                        continue
                    seen.add(k)
                if self.cap is not None and st.states >= self.cap:
                    st.capped = True
                    return
                st.states += 1
                st.max_depth = max(st.max_depth, len(nhist))
                frontier.append(nhist)
                yield nhist, nxt, bad
