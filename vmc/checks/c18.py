"""C18 - PE artefacts and the deduced Cobalt Strike version are reported correctly (form G + exhaustive tables)."""

from __future__ import annotations

import datetime
import io
import itertools

from vmc.ref import config as RC
from vmc.ref import pe as refpe
from vmc.ref import xorenc
from vmc.runner import lcg

ID = "C18"
LEVEL = "model_checking"
RULE = (
    "construction automaton over image parameters (arch x compile stamp x export stamp/absent x e_lfanew x MZ magic x "
    "PE magic x prepend x append x raw/XorEncoded view): images are built by vmc/ref/pe.py and every pe.find_* helper "
    "is compared with the builder's parameters; prepend lengths 0..1023 are enumerated completely (1024 must be 'not "
    "found'). Version: from_max_setting_enum for all 65536 indices, from_pe_export_stamp for every table key and its "
    "neighbours, every version string of the documented shape, monotonicity of both tables, BeaconConfig.version "
    "precedence on images with/without export directory. non-trivial = every image / index / string evaluated"
    '. Added: export directory at the start / end of its section, explicit search ranges, compile stamp 0 through every constructor, Guardrails inside XorEncoded, the typed maximum index, one object across stamp assignments, unpadded days in version strings. '
)
ASSUMPTIONS = [
    "`None` and b'' are the same answer for 'no append'; append bytes do not end in NUL (padding is stripped by design)",
    "an export timestamp of 0 is not 'present'",
    "prepended bytes do not themselves form a valid DOS header (fillers 90, 00, cc, 41, LCG)",
]
BOUNDS = {"quick": {"prepend_step": 1, "variants": "core"}, "thorough": {"prepend_step": 1, "variants": "full"}}
E_LFANEW = (0x40, 0x80, 0xF8, 0x3F8)
E_LFANEW_THOROUGH = (0x44, 0x48, 0x100, 0x200, 0x3FC)
MZ = (b"MZ", b"MZRE", b"MZAR", b"\x4d\x5a\x41\x52", b"\x90\x90\x41\x42", b"MZ\n\r", b"\n\x0bMZ")
PEM = (b"PE\x00\x00", b"De\x00\x00", b"\x01\x02\x03\x04", b"NTH\x00", b"P\n\x00\x01")


def plan(tier, seed):
    ch = []
    for part in range(32):
        ch.append({"key": f"prepend/{part}", "kind": "prepend", "part": part, "cost": 3000})
    for arch in ("x86", "x64"):
        for lf in E_LFANEW + (E_LFANEW_THOROUGH if tier == "thorough" else ()):
            ch.append({"key": f"params/{arch}/{lf:x}", "kind": "params", "arch": arch, "lf": lf, "cost": 800})
    ch.append({"key": "xorview", "kind": "xorview", "cost": 1500})
    for arch in ("x86", "x64"):
        ch.append({"key": f"maxrange/{arch}", "kind": "maxrange", "arch": arch, "cost": 2500})
    for part in range(8):
        ch.append({"key": f"maxenum/{part}", "kind": "maxenum", "part": part, "cost": 500})
    ch.append({"key": "stamps", "kind": "stamps", "cost": 50})
    ch.append({"key": "strings", "kind": "strings", "cost": 600})
    ch.append({"key": "precedence", "kind": "precedence", "cost": 1500})
    return ch


def call(f, *a, **k):
    try:
        return f(*a, **k)
    except Exception as e:  # noqa
        return f"EXC {type(e).__name__}: {e}"


def norm_append(x):
    return None if x in (None, b"") else bytes(x)


def check_image(acc, fh_factory, params, label):
    """params: dict(arch, compile, export|None, lf, mz, pem, prepend(bytes), append(bytes))"""
    from dissect.cobaltstrike import pe

    exp = {
        "arch": params["arch"],
        "stamps": (params["compile"], params["export"]),
        "magic_mz": params["mz"],
        "magic_pe": params["pem"].rstrip(b"\x00"),
        "prepend": params["prepend"] or None,
        "append": norm_append(params["append"]),
        "mz_offset": len(params["prepend"]),
    }
    fh = fh_factory()
    got = {
        "mz_offset": call(pe.find_mz_offset, fh),
        "arch": call(pe.find_architecture, fh),
        "stamps": call(pe.find_compile_stamps, fh),
        "magic_mz": call(pe.find_magic_mz, fh),
        "magic_pe": call(pe.find_magic_pe, fh),
    }
    pa = call(pe.find_stage_prepend_append, fh)
    if isinstance(pa, tuple):
        got["prepend"], got["append"] = (pa[0] or None), norm_append(pa[1])
    else:
        got["prepend"] = got["append"] = pa
    acc.transitions += 6
    key = (label, params["arch"], params["compile"], params["export"], params["lf"], params["mz"], params["pem"], len(params["prepend"]), params["prepend"][:1], params["append"])
    acc.case(key, outcome=(got["arch"], str(got["stamps"]), len(params["prepend"]) % 7))
    bad = [k for k in exp if got[k] != exp[k]]
    if bad:
        case = {"kind": "image", "label": label, **{k: (v.hex() if isinstance(v, bytes) else v) for k, v in params.items()}}
        acc.fail("C18/pe/" + "+".join(sorted(bad)), case, {k: _j(exp[k]) for k in bad}, {k: _j(got[k]) for k in bad})


def _j(v):
    if isinstance(v, bytes):
        return v.hex() if len(v) < 40 else v[:20].hex() + f"..({len(v)})"
    if isinstance(v, tuple):
        return list(v)
    return v


def build(params, data=b""):
    img = refpe.build_pe(arch=params["arch"], compile_stamp=params["compile"], export_stamp=params["export"] or 0, e_lfanew=params["lf"], magic_mz=params["mz"], magic_pe=params["pem"], data=data, with_export=params["export"] is not None, append=params["append"], export_at=params.get("export_at", 0x10))
    return params["prepend"] + img


def base_params(**kw):
    p = {"arch": "x86", "compile": 0x5FA0B201, "export": 0x5FA0B264, "lf": 0x80, "mz": b"MZRE", "pem": b"PE\x00\x00", "prepend": b"", "append": b""}
    p.update(kw)
    return p


def chunk_prepend(chunk, acc):
    """Every prepend length 0..1023 (and 1024.. => not found)."""
    from dissect.cobaltstrike import pe

    part = chunk["part"]
    for n in range(0, 1024):
        if n % 32 != part:
            continue
        acc.states += 1
        arch = ("x86", "x64")[n % 2]
        lf = E_LFANEW[(n // 2) % 4]
        p = base_params(arch=arch, lf=lf, prepend=b"\x90" * n, append=b"TAIL" if n % 3 == 0 else b"", mz=MZ[n % len(MZ)])
        blob = build(p)
        check_image(acc, lambda: io.BytesIO(blob), p, "prepend")
        if n <= 70 or (acc.tier == "thorough" and n % 3 == part % 3):
            for filler in (b"\x00", b"\xcc", b"\x41", None):
                pre = (filler * n) if filler else bytes(lcg(n, acc.seed + n))
                p2 = base_params(arch=arch, lf=lf, prepend=pre)
                blob2 = build(p2)
                check_image(acc, lambda: io.BytesIO(blob2), p2, "prepend-filler")
    if part == 0:
        for n in (1024, 1025, 2000):
            blob = build(base_params(prepend=b"\x90" * n))
            fh = io.BytesIO(blob)
            got = (call(pe.find_mz_offset, fh), call(pe.find_architecture, fh), call(pe.find_compile_stamps, fh), call(pe.find_magic_mz, fh), call(pe.find_magic_pe, fh), call(pe.find_stage_prepend_append, fh))
            acc.case(("beyond", n), outcome=str(got))
            if got != (None, None, (None, None), None, None, (None, None)):
                acc.fail("C18/pe/beyond-search-range", {"kind": "beyond", "prepend_len": n}, "not found", str(got))
    acc.sample({"prepend_lengths": f"{part}, {part + 32}, ... < 1024", "filler": "90", "expect_mz_offset": "== prepend length"})


def chunk_params(chunk, acc):
    from dissect.cobaltstrike import version

    arch, lf = chunk["arch"], chunk["lf"]
    table = sorted(version.PE_EXPORT_STAMP_TO_VERSION)
    compiles = [0, 1, 0xFFFFFFFF, table[0], table[-1]]
    exports = [None, 0, 1, 0xFFFFFFFF] + table + [table[0] - 1, table[-1] + 1]
    appends = [b"", b"\x01", b"abc", bytes((b % 255) + 1 for b in lcg(1024, acc.seed + 9)), bytes((b % 255) + 1 for b in lcg(1500, acc.seed + 9)), b"\x00\x00", b"x\x00y"]
    full = BOUNDS[acc.tier]["variants"] == "full"
    for ex in exports:
        acc.states += 1
        p = base_params(arch=arch, lf=lf, export=ex, compile=compiles[(ex or 0) % len(compiles)])
        blob = build(p)
        check_image(acc, lambda: io.BytesIO(blob), p, "export")
        if ex is not None:
            # the export directory as the first bytes of its section, and ending exactly with its section
            for at in (0, 0x1D8):
                for pre in (b"", b"\x90" * 5):
                    p2 = dict(p, export_at=at, prepend=pre)
                    blob2 = build(p2)
                    check_image(acc, lambda: io.BytesIO(blob2), p2, "export-position")
    for comp in compiles:
        for mz in MZ:
            for pem in PEM:
                acc.states += 1
                p = base_params(arch=arch, lf=lf, compile=comp, mz=mz, pem=pem, prepend=b"\x90" * (3 if full else 0))
                blob = build(p)
                check_image(acc, lambda: io.BytesIO(blob), p, "magic")
    for ap in appends:
        for pre in (b"", b"\x90" * 8):
            acc.states += 1
            p = base_params(arch=arch, lf=lf, append=ap, prepend=pre)
            exp_ap = ap[:1024].rstrip(b"\x00")
            blob = build(p)
            p_exp = dict(p, append=exp_ap)
            # the helper reports at most 1024 appended bytes, with NUL padding stripped
            check_image(acc, lambda: io.BytesIO(blob), p_exp, "append")
    acc.sample({"arch": arch, "e_lfanew": lf, "export_stamps": len(exports), "mz_magics": [m.hex() for m in MZ], "pe_magics": [m.hex() for m in PEM]})


def check_image_maxrange(acc, blob, params, R):
    """All helpers given the same explicit search range."""
    from dissect.cobaltstrike import pe

    exp = {"arch": params["arch"], "stamps": (params["compile"], params["export"]), "magic_mz": params["mz"], "magic_pe": params["pem"].rstrip(b"\x00"), "prepend": params["prepend"] or None, "append": norm_append(params["append"]), "mz_offset": len(params["prepend"])}
    fh = io.BytesIO(blob)
    got = {
        "mz_offset": call(pe.find_mz_offset, fh, 0, R), "arch": call(pe.find_architecture, fh, maxrange=R), "stamps": call(pe.find_compile_stamps, fh, maxrange=R),
        "magic_mz": call(pe.find_magic_mz, fh, maxrange=R), "magic_pe": call(pe.find_magic_pe, fh, maxrange=R),
    }
    pa = call(pe.find_stage_prepend_append, fh, maxrange=R)
    if isinstance(pa, tuple):
        got["prepend"], got["append"] = (pa[0] or None), norm_append(pa[1])
    else:
        got["prepend"] = got["append"] = pa
    acc.transitions += 6
    acc.case(("maxrange", params["arch"], params["lf"], len(params["prepend"]), len(params["append"]), R), outcome=(got["arch"], str(got["stamps"])))
    bad = [k for k in exp if got[k] != exp[k]]
    if bad:
        acc.fail("C18/pe/maxrange/" + "+".join(sorted(bad)), {"kind": "maxrange", "arch": params["arch"], "lf": params["lf"], "prepend_len": len(params["prepend"]), "maxrange": R}, {k: _j(exp[k]) for k in bad}, {k: _j(got[k]) for k in bad})


def chunk_maxrange(chunk, acc):
    """A caller-supplied search range larger than the default: images behind 1024..2040 prepended bytes (and with
    e_lfanew beyond 1024) are located by every helper that is given that range."""
    arch = chunk["arch"]
    for R in (2048, 4096):
        for n, lf in ((0, 0x80), (1000, 0x80), (1024, 0x80), (1030, 0x80), (1500, 0xF8), (2040, 0x80), (0, 0x4B0), (700, 0x4B0)):
            acc.states += 1
            p = base_params(arch=arch, lf=lf, prepend=b"\x90" * n, append=b"TAIL")
            check_image_maxrange(acc, build(p), p, R)
    # the range is about where the image starts: appended bytes are reported the same under any range that finds it
    for R in (160, 256, 512, 1024, 2048):
        for n in (0, 10):
            for ap in (bytes((b % 255) + 1 for b in lcg(300, acc.seed + 4)), bytes((b % 255) + 1 for b in lcg(700, acc.seed + 5))):
                acc.states += 1
                p = base_params(arch=arch, lf=0x80, prepend=b"\x90" * n, append=ap)
                check_image_maxrange(acc, build(p), p, R)
    acc.sample({"arch": arch, "maxrange": [2048, 4096], "prepend_lengths": [0, 1000, 1024, 1030, 1500, 2040], "e_lfanew": ["0x80", "0xf8", "0x4b0"]})


def chunk_xorview(chunk, acc):
    from dissect.cobaltstrike.xordecode import XorEncodedFile

    for arch in ("x86", "x64"):
        for lf in (0x80, 0xF8):
            for n in (0, 1, 3, 8, 64):
                for ap in (b"", b"APP"):
                    acc.states += 1
                    p = base_params(arch=arch, lf=lf, prepend=b"\x90" * n, append=ap)
                    blob = build(p)
                    enc = xorenc.encode(blob, nonce=b"\x12\x34\x56\x78", stub=xorenc.CALL_STUB)

                    def factory(enc=enc):
                        return XorEncodedFile.from_file(io.BytesIO(enc))

                    first = call(factory)
                    if isinstance(first, str):
                        acc.case(("xorview", arch, lf, n, ap), outcome=first)
                        acc.fail("C18/pe/xorview-not-detected", {"kind": "xorview", "arch": arch, "lf": lf, "prepend_len": n}, "XorEncodedFile", first)
                        continue
                    check_image(acc, factory, p, "xorview")
    acc.sample({"view": "XorEncodedFile over stub|nonce|size|rolling-xor(image)", "prepend_lengths": [0, 1, 3, 8, 64]})


def chunk_maxenum(chunk, acc):
    from dissect.cobaltstrike import version

    table = dict(version.MAX_ENUM_TO_VERSION)
    n = 0
    lo, hi = chunk["part"] * 8192, (chunk["part"] + 1) * 8192
    for i in range(lo, hi):
        v = call(version.BeaconVersion.from_max_setting_enum, i)
        exp = table.get(i, "Unknown")
        if isinstance(v, str) and v.startswith("EXC") or str(v) != exp or (exp == "Unknown" and (v.tuple is not None or v.date is not None or v.version_only != "Unknown")):
            acc.fail("C18/version/max-enum-lookup", {"kind": "maxenum", "index": i}, exp, str(v))
        n += 1
    acc.states += n
    acc.transitions += n
    acc.bulk(n, n, outcomes=[chunk["part"]])
    acc.sample({"indices": f"{lo}..{hi - 1}", "example": {"index": 58, "version": table.get(58)}})


MONTHS = ("Jan", "Feb", "Mar", "Apr", "May", "Jun", "Jul", "Aug", "Sep", "Oct", "Nov", "Dec")


def parse_ref(s):
    """Independent reading of 'Cobalt Strike M.m[.p] (Mon DD, YYYY)'."""
    head, _, rest = s.partition(" (")
    num = head[len("Cobalt Strike ") :]
    tup = tuple(int(x) for x in num.split("."))
    mon, day, year = rest.rstrip(")").replace(",", "").split()
    return tup, datetime.date(int(year), MONTHS.index(mon) + 1, int(day))


def version_consistent(v, s):
    tup, date = parse_ref(s)
    return v.tuple == tup and v.date == date and v.version_only == ".".join(map(str, tup)) and v.version_string == "Cobalt Strike " + ".".join(map(str, tup)) and str(v) == s and v.version == s


def chunk_stamps(chunk, acc):
    from dissect.cobaltstrike import version

    for name, tbl, ctor in (("export", version.PE_EXPORT_STAMP_TO_VERSION, version.BeaconVersion.from_pe_export_stamp), ("maxenum", version.MAX_ENUM_TO_VERSION, version.BeaconVersion.from_max_setting_enum)):
        keys = sorted(tbl)
        prev = None
        for k in keys:
            acc.states += 1
            acc.transitions += 1
            v = call(ctor, k)
            acc.case((name, k), outcome=str(v))
            if isinstance(v, str) and v.startswith("EXC") or str(v) != tbl[k] or not version_consistent(v, tbl[k]):
                acc.fail("C18/version/table-entry-inconsistent", {"kind": "stamp", "table": name, "key": k}, tbl[k], repr(v))
                continue
            cur = ((v.tuple + (0,))[:3], v.date)
            if prev and (cur[0] < prev[1][0] or cur[1] < prev[1][1]):
                acc.fail("C18/version/table-not-monotone", {"kind": "stamp", "table": name, "key": k}, f">= {prev[1]} (key {prev[0]})", str(cur))
            prev = (k, cur)
            for nb in (k - 1, k + 1):
                if nb not in tbl:
                    u = call(ctor, nb)
                    acc.case((name, nb), outcome=str(u))
                    if str(u) != "Unknown" or u.tuple is not None:
                        acc.fail("C18/version/neighbour-not-unknown", {"kind": "stamp", "table": name, "key": nb}, "Unknown", repr(u))
        for k in (0, 0xFFFFFFFF, -1):
            u = call(ctor, k)
            acc.case((name, k), outcome=str(u))
            if k not in tbl and str(u) != "Unknown":
                acc.fail("C18/version/neighbour-not-unknown", {"kind": "stamp", "table": name, "key": k}, "Unknown", repr(u))
    # the two tables are independent: the same integer looked up in both, in both orders, gets each table's answer
    et, mt = version.PE_EXPORT_STAMP_TO_VERSION, version.MAX_ENUM_TO_VERSION
    ints = sorted(set(mt) | {0, 1, 19, 21, 57, 60, 75, 77, 79, 100}) + sorted(et)[:6]
    for n, i in enumerate(ints):
        order = (("maxenum", version.BeaconVersion.from_max_setting_enum, mt), ("export", version.BeaconVersion.from_pe_export_stamp, et))
        if n % 2:
            order = order[::-1]
        for name, ctor, tbl in order + order:
            acc.transitions += 1
            v = call(ctor, i)
            acc.case(("cross", i, name, n % 2), outcome=str(v))
            if str(v) != tbl.get(i, "Unknown") or (i not in tbl and getattr(v, "tuple", 1) is not None):
                acc.fail("C18/version/tables-not-independent", {"kind": "stamp", "table": name, "key": i}, tbl.get(i, "Unknown"), repr(v))
    acc.sample({"export_table_keys": len(version.PE_EXPORT_STAMP_TO_VERSION), "maxenum_table_keys": len(version.MAX_ENUM_TO_VERSION)})


def chunk_strings(chunk, acc):
    from dissect.cobaltstrike import version

    for M in range(0, 6):
        for m in range(0, 13):
            for p in (None, 0, 1, 10):
                for mi, mon in enumerate(MONTHS):
                    for d in (1, 9, 10, 28, 29, 30, 31):
                        for y in (2016, 2024, 2031):
                            try:
                                datetime.date(y, mi + 1, d)
                            except ValueError:
                                continue
                            # (zero-padded day, and for single-digit days the unpadded spelling as well)
                            for day in ((f"{d:02d}", f"{d}") if d < 10 else (f"{d:02d}",)):
                                s = f"Cobalt Strike {M}.{m}" + (f".{p}" if p is not None else "") + f" ({mon} {day}, {y})"
                                acc.transitions += 1
                                v = call(version.BeaconVersion, s)
                                if isinstance(v, str) and v.startswith("EXC") or not version_consistent(v, s):
                                    acc.fail("C18/version/string-parse", {"kind": "string", "text": s}, str(parse_ref(s)), repr(v))
        acc.states += 1
    n = 6 * 13 * 4 * 12 * 7 * 3
    acc.bulk(acc.transitions, acc.transitions, outcomes=["parsed"])
    for s in ("Unknown", "", "Cobalt Strike", "Cobalt Strike 4 (Jan 01, 2020)", "cobalt strike 4.5 (Dec 14, 2021)"):
        v = call(version.BeaconVersion, s)
        acc.case(("odd", s), outcome=repr(v))
        if isinstance(v, str) and v.startswith("EXC") or v.tuple is not None or v.version_only != "Unknown":
            acc.fail("C18/version/non-version-string", {"kind": "string", "text": s}, "tuple None / Unknown", repr(v))
    acc.sample({"text": "Cobalt Strike 4.7.1 (Sep 16, 2022)", "tuple": [4, 7, 1], "date": "2022-09-16"})


def chunk_precedence(chunk, acc):
    from dissect.cobaltstrike import beacon, version

    et = version.PE_EXPORT_STAMP_TO_VERSION
    mt = version.MAX_ENUM_TO_VERSION
    stamps = sorted(et)
    picks = [stamps[0], stamps[len(stamps) // 2], stamps[-1], stamps[0] + 1, 0xFFFFFFFF, None]
    for arch in ("x86", "x64"):
        for ex in picks:
            for maxidx_extra in ((), ((58, 3, b"\x00\x04"),), ((78, 3, bytes(23)),), ((200, 0, b""),)):
                acc.states += 1
                acc.transitions += 1
                settings = RC.http_settings(extra=list(maxidx_extra))
                blk = RC.block(settings, pad=4096)
                p = base_params(arch=arch, export=ex)
                blob = build(p, data=RC.obfuscate(blk, 0x2E))
                bc = call(beacon.BeaconConfig.from_bytes, blob)
                acc.case((arch, ex, maxidx_extra), outcome=str(getattr(bc, "version", bc)))
                if isinstance(bc, str):
                    acc.fail("C18/version/from_bytes-failed", {"kind": "precedence", "arch": arch, "export": ex}, "BeaconConfig", bc)
                    continue
                maxidx = max(s[0] for s in settings)
                exp = et.get(ex, "Unknown") if ex is not None else mt.get(maxidx, "Unknown")
                obs = {"version": str(bc.version), "export": bc.pe_export_stamp, "compile": bc.pe_compile_stamp, "arch": bc.architecture, "max": bc.max_setting_enum}
                want = {"version": exp, "export": ex, "compile": p["compile"], "arch": arch, "max": maxidx}
                if obs != want:
                    bad = [k for k in want if want[k] != obs[k]]
                    acc.fail("C18/version/precedence/" + "+".join(bad), {"kind": "precedence", "arch": arch, "export": ex, "max_index": maxidx}, want, obs)
    # the compile timestamp is a value like any other (0 and 1 included), through every constructor
    import os
    import tempfile

    for arch in ("x86", "x64"):
        for comp in (0, 1, 0x7FFFFFFF, 0xFFFFFFFF):
            for ex in (stamps[-1], 0, None):
                p = base_params(arch=arch, export=ex, compile=comp)
                blob = build(p, data=RC.obfuscate(RC.block(RC.http_settings(), pad=4096), 0x2E))
                for which in ("bytes", "file", "path", "xor-bytes"):
                    acc.states += 1
                    acc.transitions += 1
                    if which == "bytes":
                        bc = call(beacon.BeaconConfig.from_bytes, blob)
                    elif which == "xor-bytes":
                        bc = call(beacon.BeaconConfig.from_bytes, xorenc.encode(blob, stub=xorenc.CALL_STUB))
                    elif which == "file":
                        bc = call(beacon.BeaconConfig.from_file, io.BytesIO(blob))
                    else:
                        fd, path = tempfile.mkstemp(prefix="c18_", dir="/dev/shm" if os.path.isdir("/dev/shm") else None)
                        try:
                            with os.fdopen(fd, "wb") as f:
                                f.write(blob)
                            bc = call(beacon.BeaconConfig.from_path, path)
                        finally:
                            os.unlink(path)
                    acc.case(("stamps", arch, comp, ex, which), outcome=str(getattr(bc, "architecture", bc)))
                    if isinstance(bc, str):
                        acc.fail("C18/version/from_bytes-failed", {"kind": "precedence", "arch": arch, "export": ex, "compile": comp, "which": which}, "BeaconConfig", bc)
                        continue
                    obs = {"export": bc.pe_export_stamp, "compile": bc.pe_compile_stamp, "arch": bc.architecture}
                    want = {"export": ex, "compile": comp, "arch": arch}
                    if obs != want:
                        bad = [k for k in want if want[k] != obs[k]]
                        acc.fail("C18/config/artefacts/" + "+".join(bad), {"kind": "precedence", "arch": arch, "export": ex, "compile": comp, "which": which}, want, obs)
    # a stomped export stamp that collides with a setting index, then a stage without export directory (same process)
    for small in (59, 78):
        s1 = RC.http_settings(extra=[(small, 0, b"")])
        blob1 = build(base_params(export=small), data=RC.obfuscate(RC.block(s1, pad=4096), 0x2E))
        blob2 = build(base_params(export=None), data=RC.obfuscate(RC.block(s1, pad=4096), 0x2E))
        for label, blob, exp in (("stomped", blob1, et.get(small, "Unknown")), ("no-export", blob2, mt.get(small, "Unknown")), ("stomped-again", blob1, et.get(small, "Unknown"))):
            bc = call(beacon.BeaconConfig.from_bytes, blob)
            acc.transitions += 1
            acc.case(("collide", small, label), outcome=str(getattr(bc, "version", bc)))
            if isinstance(bc, str) or str(bc.version) != exp:
                acc.fail("C18/version/precedence/stamp-collides-with-index", {"kind": "precedence", "arch": "x86", "export": small, "max_index": small}, exp, bc if isinstance(bc, str) else str(bc.version))
    # a Guardrails-protected configuration inside the image, plain and XorEncoded: artefacts come from the decoded view
    from vmc.ref import guardrails as RG

    area, _, _ = RG.protect(RC.block(RC.http_settings()), b"\x11\x22\x33\x44\x55", [(RG.G_COMPUTER, b"\xab\xcd")])
    for arch in ("x86", "x64"):
        for ex in (stamps[-1], None):
            p = base_params(arch=arch, export=ex)
            img = build(p, data=b"\x33" * 16 + area)
            for cont, blob in (("pe", img), ("xor", xorenc.encode(img, stub=xorenc.CALL_STUB))):
                acc.states += 1
                acc.transitions += 1
                bc = call(beacon.BeaconConfig.from_bytes, blob)
                acc.case(("guardrails", arch, ex, cont), outcome=str(getattr(bc, "version", bc)))
                if isinstance(bc, str):
                    acc.fail("C18/version/from_bytes-failed", {"kind": "precedence", "arch": arch, "export": ex, "container": "guardrails-" + cont}, "BeaconConfig", bc)
                    continue
                maxidx = max(s[0] for s in RC.http_settings())
                want = {"version": et.get(ex, "Unknown") if ex is not None else mt.get(maxidx, "Unknown"), "export": ex, "compile": p["compile"], "arch": arch}
                obs = {"version": str(bc.version), "export": bc.pe_export_stamp, "compile": bc.pe_compile_stamp, "arch": bc.architecture}
                if obs != want:
                    bad = [k for k in want if want[k] != obs[k]]
                    acc.fail("C18/version/precedence/guardrails-" + cont + "/" + "+".join(bad), {"kind": "precedence", "arch": arch, "export": ex, "container": "guardrails-" + cont}, want, obs)
    # one object, the public stamp attribute assigned after construction (as from_file does) and read in between
    for maxidx in (58, 78):
        bc = beacon.BeaconConfig(RC.block([(1, 1, b"\x00\x00"), (maxidx, 0, b"")]))
        hist = [None, stamps[0], stamps[-1], stamps[0] + 1, None, stamps[len(stamps) // 2]]
        for i, st in enumerate(hist):
            bc.pe_export_stamp = st
            exp = et.get(st, "Unknown") if st is not None else mt.get(maxidx, "Unknown")
            got = call(lambda: str(bc.version))
            acc.transitions += 1
            acc.case(("object-history", maxidx, i), outcome=got)
            if got != exp:
                acc.fail("C18/version/precedence/stale-after-stamp-change", {"kind": "precedence", "arch": "-", "export": st, "max_index": maxidx, "history": hist[: i + 1]}, exp, got)
                break
    # a bare block (no image): version comes from the highest index
    for maxidx in (20, 58, 59, 75, 78, 79):
        bc = beacon.BeaconConfig(RC.block([(1, 1, b"\x00\x00"), (maxidx, 0, b"")]))
        acc.case(("bare", maxidx), outcome=str(bc.version))
        if str(bc.version) != mt.get(maxidx, "Unknown"):
            acc.fail("C18/version/precedence/bare-block", {"kind": "bare", "max_index": maxidx}, mt.get(maxidx, "Unknown"), str(bc.version))
    # the highest index carried in every type (index 36 changes its name with its type, an unknown index has none):
    # the maximum is taken over the numeric indices
    for maxidx in (35, 36, 37, 75, 79, 200):
        for typ, val in ((1, b"\x00\x03"), (2, b"\x00\x00\x00\x05"), (3, b"h\x00"), (0, b"")):
            for order in ("last", "first"):
                recs = [(1, 1, b"\x00\x00"), (2, 1, b"\x00\x50")]
                recs = recs + [(maxidx, typ, val)] if order == "last" else [(maxidx, typ, val)] + recs
                bc = beacon.BeaconConfig(RC.block(recs))
                acc.transitions += 1
                got = call(lambda: (bc.max_setting_enum, str(bc.version)))
                acc.case(("bare-typed", maxidx, typ, order), outcome=str(got))
                if got != (maxidx, mt.get(maxidx, "Unknown")):
                    acc.fail("C18/version/precedence/bare-block", {"kind": "bare", "max_index": maxidx, "type": typ, "order": order}, [maxidx, mt.get(maxidx, "Unknown")], got if isinstance(got, str) else list(got))
    acc.sample({"image": "PE with config in .data (key 2e)", "export_stamp": hex(stamps[-1]), "expect_version": et[stamps[-1]]})


def run_chunk(chunk, acc):
    globals()["chunk_" + chunk["kind"]](chunk, acc)


def replay(case):
    from vmc.runner import Acc

    a = Acc("replay", "quick", case.get("seed", 0))
    if case["kind"] == "image":
        p = {k: case[k] for k in ("arch", "compile", "export", "lf")}
        for k in ("mz", "pem", "prepend", "append"):
            p[k] = bytes.fromhex(case[k])
        if "export_at" in case:
            p["export_at"] = case["export_at"]
        if case["label"] == "xorview":
            from dissect.cobaltstrike.xordecode import XorEncodedFile

            enc = xorenc.encode(build(p), nonce=b"\x12\x34\x56\x78", stub=xorenc.CALL_STUB)
            check_image(a, lambda: XorEncodedFile.from_file(io.BytesIO(enc)), p, "replay")
        elif case["label"] == "append":
            # the recorded append is the expected (stripped) value; rebuild with it
            blob = build(p)
            check_image(a, lambda: io.BytesIO(blob), p, "replay")
        else:
            blob = build(p)
            check_image(a, lambda: io.BytesIO(blob), p, "replay")
    elif case["kind"] == "maxrange":
        chunk_maxrange({"arch": case["arch"]}, a)
    else:
        fam = {"beyond": lambda c, x: chunk_prepend({"part": 0}, x), "maxenum": lambda c, x: chunk_maxenum({"part": case.get("index", 0) // 8192}, x), "stamp": chunk_stamps, "string": chunk_strings, "precedence": chunk_precedence, "bare": chunk_precedence, "xorview": chunk_xorview}[case["kind"]]
        fam({}, a)
    v = a.violations[0] if a.violations else None
    return {"ok": v is None, "expected": v["expected"] if v else None, "observed": v["observed"] if v else None}
