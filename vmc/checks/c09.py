"""C09 - The XorEncoded file view is a faithful read-only file over the decoded bytes.

Form H with state merging: for each (plaintext, nonce, stub length) instance the complete reachable state graph of
the view (state = cursor) is explored; every alphabet operation is applied in every reachable state on a fresh real
XorEncodedFile (history replayed) and compared with io.BytesIO(plaintext). An unmerged pass over all histories up to
a depth cross-checks the "cursor is the only state" argument. Detection (from_file) is enumerated over stubs.
"""

from __future__ import annotations

import io
import itertools

from vmc.kernel import sequences
from vmc.ref import pe as refpe
from vmc.ref import xorenc
from vmc.runner import hx, lcg, unhx

ID = "C09"
LEVEL = "model_checking"
RULE = (
    "state = cursor of the view; for every (plaintext length, nonce, stub length) instance every alphabet operation "
    "(seek SET/CUR/END, read(n), tell) is applied in every reachable state on a fresh real XorEncodedFile with the "
    "shortest history replayed, and compared with io.BytesIO(plaintext): data returned, position before/after, "
    "position advanced by exactly len(data). Plus all histories up to the unmerged depth, plus from_file detection "
    "over every stub of the bound. non-trivial = the operation moved the cursor or returned data"
    '. Added: inconsistent size fields, results held across later reads, caller-supplied maxrange, MZ-leading stubs, detection independent of the handle position. '
)
ASSUMPTIONS = [
    "io.BytesIO is the reference for read-only file semantics",
    "seek() return values are not compared (the statement speaks of reads and the reported position)",
    "histories in which the reference position would become negative are not generated",
    "for the 4099/8195-byte plaintexts only cursors within 6 of start/EOF and within 4 of a 4096 boundary are expanded",
    "the state graph is bounded at cursor <= len+6 (transitions into larger cursors are executed and compared, the target is not expanded)",
    "stubs containing ff ff ff before their end are outside 'end-of-stub marker' and not generated",
]
BOUNDS = {
    "quick": {"plain_lens": list(range(0, 18)) + [4099], "unmerged_depth": 3, "stub_len": 5, "neg_stub_len": 2, "buckets": 8},
    "thorough": {"plain_lens": list(range(0, 26)) + [4099, 8195], "unmerged_depth": 4, "stub_len": 6, "neg_stub_len": 4, "buckets": 16},
}
NONCES = (b"\x00\x00\x00\x00", b"\xff\xff\xff\xff", b"\x12\x34\x56\x78")
NONCE_OFFSETS = (0, 3, 9)
DETECT_NONCES_PREPEND = (b"\x00\x00\x00\x00", b"\xff\x00\xff\x00", b"\x12\x34\x56\x78")


def plan(tier, seed):
    b = BOUNDS[tier]
    chunks = []
    for ln in b["plain_lens"]:
        for no in NONCE_OFFSETS:
            chunks.append({"key": f"graph/len{ln}/off{no}", "kind": "graph", "len": ln, "nonce_offset": no, "cost": 50 + ln})
    for ln in (5, 9) if tier == "quick" else (3, 5, 8, 9):
        for first in range(len(UNMERGED_OPS)):
            chunks.append({"key": f"unmerged/len{ln}/first{first}", "kind": "unmerged", "len": ln, "first": first, "cost": 300 if tier == "quick" else 6000})
    for arch in ("x86", "x64"):
        for prepend in (0, 3):
            for bucket in range(b["buckets"]):
                chunks.append({"key": f"detect/{arch}/pre{prepend}/b{bucket}", "kind": "detect", "arch": arch, "prepend": prepend, "bucket": bucket, "cost": 4000})
    chunks.append({"key": "detect/negative", "kind": "detect_negative", "cost": 500})
    for arch in ("x86", "x64"):
        chunks.append({"key": f"detect/maxrange/{arch}", "kind": "detect_maxrange", "arch": arch, "cost": 2500})
    return chunks


def ops_for(n):
    if n > 32:
        # long plaintexts exist to cross 4096-byte boundaries; a thinner operation menu keeps read-to-EOF affordable
        ops = [("seek", p, 0) for p in (0, 1, 4, 4094, 4095, 4096, 4097, n - 5, n - 1, n, n + 2)]
        ops += [("seek", d, 1) for d in (-3, 1)] + [("seek", d, 2) for d in (0, -5)]
        ops += [("read", k) for k in (0, 1, 3, 4, 4096, 4097, -1)] + [("tell",)]
        return ops
    ops = [("seek", p, 0) for p in range(0, n + 3)]
    ops += [("seek", d, 1) for d in (-5, -3, -1, 0, 1, 3)]
    ops += [("seek", d, 2) for d in (0, -1, -5, 2)]
    ops += [("read", k) for k in (0, 1, 2, 3, 4, 5, 7, 8, 9, -1, n + 5)]
    ops += [("read",), ("tell",)]
    return ops


def expandable(n, p):
    """Long plaintexts: only cursors near the start, near each 4096 boundary and near EOF are expanded further."""
    if n <= 32:
        return True
    return p <= 6 or p >= n - 6 or any(abs(p - k) <= 4 for k in range(4096, n, 4096))


UNMERGED_OPS = [
    ("seek", 0, 0), ("seek", 2, 0), ("seek", 5, 0), ("seek", -1, 1), ("seek", 1, 1), ("seek", -3, 2), ("seek", 0, 2),
    ("read", 0), ("read", 1), ("read", 3), ("read", 4), ("read", 6), ("read", -1), ("tell",),
]


def make(plain: bytes, nonce: bytes, nonce_offset: int, size_ok: bool = True):
    from dissect.cobaltstrike.xordecode import XorEncodedFile

    stub = b"\x90" * nonce_offset
    blob = xorenc.encode(plain, nonce, stub, size_ok=size_ok)
    return XorEncodedFile(io.BytesIO(blob), nonce_offset=nonce_offset), io.BytesIO(plain)


def apply(f, op):
    """Apply one op to a file-like; returns the observation (data hex / position)."""
    if op[0] == "seek":
        f.seek(op[1], op[2])
        return None
    if op[0] == "read":
        data = f.read(*op[1:])
        return bytes(data).hex()
    return f.tell()


def ref_would_go_negative(ref, op):
    if op[0] != "seek":
        return False
    if op[2] == 0:
        return op[1] < 0
    base = ref.tell() if op[2] == 1 else len(ref.getbuffer())
    return base + op[1] < 0


def step_compare(xf, ref, op):
    """Apply op to both; return (mismatch description or None, observation, moved?)."""
    before_ref = ref.tell()
    try:
        before = xf.tell()
        got = apply(xf, op)
        after = xf.tell()
    except Exception as e:  # noqa
        exp = apply(ref, op)
        return ("exception", f"{type(e).__name__}: {e}", exp), None, True
    exp = apply(ref, op)
    after_ref = ref.tell()
    if before != before_ref:
        return ("tell-before", before, before_ref), got, True
    if op[0] == "read":
        if got != exp:
            return ("data", got, exp), got, True
        if after - before != len(got) // 2:
            return ("advance", {"returned": len(got) // 2, "advanced": after - before}, {"advanced": len(exp) // 2}), got, True
    if op[0] == "tell" and got != exp:
        return ("tell", got, exp), got, True
    if after != after_ref:
        return ("tell-after", after, after_ref), got, True
    return None, got, (after_ref != before_ref) or bool(got and op[0] == "read")


def classify(op, mis):
    kind = mis[0]
    if op[0] == "read":
        n = op[1] if len(op) > 1 else -1
        if kind in ("advance", "tell-after"):
            return "C09/read/cursor-drift" + ("/read0" if n == 0 else "")
        if kind == "data":
            return "C09/read/wrong-data"
    if kind == "exception":
        return f"C09/{op[0]}/exception"
    return f"C09/{op[0]}/{kind}"


def chunk_graph(chunk, acc):
    n, no = chunk["len"], chunk["nonce_offset"]
    ops = ops_for(n)
    for nonce in (NONCES if n <= 32 else NONCES[2:]) + ((b"SIZE",) if n in (0, 5, 8, 13) else ()):
        # the pseudo nonce b"SIZE" marks an instance whose size field claims 7 bytes more than are present: the view
        # is a file over the bytes that are there
        size_ok = nonce != b"SIZE"
        plain = lcg(n, acc.seed + n) if n else b""
        # BFS over states; state = reference cursor; path = shortest history reaching it
        seen = {0: ()}
        frontier = [0]
        while frontier:
            nxt_frontier = []
            for pos in frontier:
                hist = seen[pos]
                acc.states += 1
                for op in ops:
                    xf, ref = make(plain, nonce, no, size_ok)
                    bad_prefix = False
                    for h in hist:
                        m, _, _ = step_compare(xf, ref, h)
                        if m:
                            bad_prefix = True  # already reported when that transition was explored
                            break
                    if bad_prefix:
                        continue
                    if ref_would_go_negative(ref, op):
                        continue
                    acc.transitions += 1
                    mis, got, moved = step_compare(xf, ref, op)
                    acc.case((nonce, pos, op), nontrivial=moved, outcome=(op[0], got, ref.tell() - pos))
                    if mis:
                        acc.fail(
                            classify(op, mis),
                            {"kind": "hist", "plain": plain.hex(), "nonce": nonce.hex(), "nonce_offset": no, "size_ok": size_ok, "history": [list(h) for h in hist] + [list(op)]},
                            mis[2],
                            mis[1],
                            note=mis[0],
                        )
                        continue
                    p2 = ref.tell()
                    if p2 not in seen and p2 <= n + 6 and expandable(n, p2):  # cursor bound: states beyond len+6 are checked, not expanded
                        seen[p2] = hist + (op,)
                        nxt_frontier.append(p2)
            frontier = nxt_frontier
        if nonce == NONCES[2]:
            acc.sample({"plaintext_len": n, "nonce": nonce.hex(), "nonce_offset": no, "states": len(seen), "ops_per_state": len(ops), "example_history": [list(o) for o in seen[max(seen)]]})


def chunk_unmerged(chunk, acc):
    """All histories up to the unmerged depth whose first operation is fixed by the chunk: cross-checks that the
    cursor is the only state (merged exploration would otherwise miss history-dependent behaviour)."""
    n = chunk["len"]
    depth = BOUNDS[acc.tier]["unmerged_depth"]
    plain = lcg(n, acc.seed + 77)
    nonce = NONCES[2]
    first = UNMERGED_OPS[chunk["first"]]
    for rest in sequences(UNMERGED_OPS, depth - 1):
        hist = (first,) + rest
        xf, ref = make(plain, nonce, 3)
        xf2, ref2 = make(plain[::-1], NONCES[1], 0)  # a second, unrelated view that is read in between
        acc.states += 1
        obs = []
        held = []
        for i, op in enumerate(hist):
            if ref_would_go_negative(ref, op):
                break
            acc.transitions += 1
            if op[0] == "read":
                pos = ref.tell()
                data = xf.read(*op[1:])
                held.append((data, bytes(data).hex(), i))
                xf.seek(pos)  # step_compare below performs the read again and does the comparison
                xf2.seek(0)
                xf2.read(5)
            mis, got, _ = step_compare(xf, ref, op)
            obs.append(got)
            if mis:
                acc.fail(
                    classify(op, mis),
                    {"kind": "hist", "plain": plain.hex(), "nonce": nonce.hex(), "nonce_offset": 3, "history": [list(h) for h in hist[: i + 1]]},
                    mis[2],
                    mis[1],
                    note=mis[0] + " (unmerged pass)",
                )
                break
        for data, was, i in held:
            if bytes(data).hex() != was or not isinstance(data, bytes):
                acc.fail("C09/read/result-changed-after-later-reads", {"kind": "hist", "plain": plain.hex(), "nonce": nonce.hex(), "nonce_offset": 3, "history": [list(h) for h in hist], "held_read": i}, {"type": "bytes", "data": was}, {"type": type(data).__name__, "data": bytes(data).hex()}, note="a result handed out earlier changed (or is not an immutable bytes object)")
                break
        acc.case(hist, nontrivial=True, outcome=tuple(obs))
    acc.sample({"plaintext_len": n, "history": [list(first)] + [list(o) for o in UNMERGED_OPS[:2]], "note": "every history up to the depth bound starting with this op"})


# ------------------------------------------------------------------------------------------------------------------
# detection
# ------------------------------------------------------------------------------------------------------------------

STUB_ALPHA = (0x90, 0xFC, 0xE8, 0x00)


def detect(blob: bytes, pos: int = 0):
    from dissect.cobaltstrike.xordecode import XorEncodedFile

    try:
        fh = io.BytesIO(blob)
        fh.seek(pos)
        xf = XorEncodedFile.from_file(fh)
    except ValueError:
        return ("ValueError",)
    except Exception as e:  # noqa
        return ("EXC", f"{type(e).__name__}: {e}")
    return ("ok", xf.nonce_offset, xf)


def detect_case(acc, image, stub, marker, size_ok, trailer, nonce, meta):
    full_stub = stub + (xorenc.MARKER if marker else b"")
    blob = xorenc.encode(image, nonce, full_stub, size_ok=size_ok, trailer=trailer)
    res = detect(blob)
    acc.transitions += 1
    should_find = marker or size_ok
    case = dict(meta, kind="detect", stub=stub.hex(), marker=marker, size_ok=size_ok, trailer=len(trailer), nonce=nonce.hex())
    outcome = res[:2]
    acc.case((stub, marker, size_ok, len(trailer), nonce), nontrivial=True, outcome=(outcome[0], should_find))
    if should_find:
        if res[0] != "ok":
            acc.fail("C09/detect/not-detected" + ("/marker" if marker else "") + ("/size" if size_ok else ""), case, {"nonce_offset": len(full_stub)}, list(outcome))
            return
        if res[1] != len(full_stub):
            acc.fail("C09/detect/wrong-nonce-offset", case, {"nonce_offset": len(full_stub)}, list(outcome))
            return
        xf = res[2]
        try:
            pos0 = xf.tell()
            data = xf.read(len(image))
        except Exception as e:  # noqa
            acc.fail("C09/detect/view-exception", case, "decoded image", f"{type(e).__name__}: {e}")
            return
        if pos0 != 0 or data != image:
            acc.fail("C09/detect/view-not-image", case, {"tell": 0, "prefix": image[:16].hex()}, {"tell": pos0, "prefix": bytes(data[:16]).hex(), "len": len(data)})
            return
        # detection does not depend on where the caller left the handle (already read to its end, or part-way)
        for pos in (len(blob), 7) if (len(stub) <= 2 or len(stub) > 100) else ():
            r2 = detect(blob, pos)
            acc.transitions += 1
            if r2[:2] != ("ok", len(full_stub)):
                acc.fail("C09/detect/depends-on-handle-position", dict(case, handle_position=pos), {"nonce_offset": len(full_stub)}, list(r2[:2]))
                return
    else:
        if res[0] == "EXC":
            acc.fail("C09/detect/wrong-exception", case, "ValueError", res[1])
        elif res[0] == "ok":
            acc.fail("C09/detect/false-detection", case, "ValueError", list(outcome))


def chunk_detect(chunk, acc):
    b = BOUNDS[acc.tier]
    arch, pre = chunk["arch"], chunk["prepend"]
    image = b"\x90" * pre + refpe.build_pe(arch=arch, data=lcg(64, acc.seed + 1))
    meta = {"arch": arch, "prepend": pre, "seed": acc.seed}
    stubs = [bytes(w) for w in sequences(STUB_ALPHA, b["stub_len"])]
    long_stubs = [b"\x90" * k for k in (1017, 1018, 1019, 1020, 1021)]  # +3 marker bytes => nonce offset 1020..1024
    mine = [s for i, s in enumerate(stubs + long_stubs) if i % b["buckets"] == chunk["bucket"]]
    if chunk["bucket"] == 1 % b["buckets"]:
        # the size field alone, with the nonce at the last offsets of the documented 1024-byte search range
        for n in (1000, 1016, 1019, 1020, 1021, 1022, 1023):
            acc.states += 1
            detect_case(acc, image, b"\x90" * n, False, True, b"", NONCES[2], meta)
    if chunk["bucket"] == 0:
        # stubs that end in a longer run of ff bytes (the marker occurs at overlapping positions): with a consistent
        # size field the true offset is supported by two indications and must win
        for head in (b"", b"\xe8", b"\xfc\xe8\x90"):
            for extra in (1, 2, 3, 4):
                stub = head + b"\xff" * extra
                acc.states += 1
                for nonce in (NONCES[0], NONCES[2]):
                    detect_case(acc, image, stub, True, True, b"", nonce, meta)
    if chunk["bucket"] == 0:
        # a stub that itself begins with "MZ" (dec ebp / pop edx, the executable-header prologue), and an empty stub
        # whose nonce begins with "MZ": the raw file then starts with 4d 5a without being a plain PE image
        for stub, nonce in ((b"MZ", NONCES[2]), (b"MZRE", NONCES[2]), (b"MZ\x90\x00", NONCES[0]), (b"MZARUH\x89\xe5", NONCES[2]), (b"", b"MZ\x12\x34"), (b"", b"MZRE")):
            for marker, size_ok in ((True, True), (True, False), (False, True)):
                acc.states += 1
                detect_case(acc, image, stub, marker, size_ok, b"" if size_ok else b"\x00", nonce, meta)
    for stub in mine:
        acc.states += 1
        in_range_marker = len(stub) + 3 <= 1023
        for marker in (True, False):
            for size_ok, trailer in ((True, b""), (False, b""), (False, b"\x00"), (False, b"TRAIL")):
                if len(stub) > 100 and trailer == b"\x00":
                    continue
                if not marker and not size_ok and len(stub) > b["neg_stub_len"]:
                    continue  # "neither marker nor size" (expensive full scans) only for the shorter stubs
                # a nonce containing ff ff ff is itself an in-band marker occurrence; together with prepended bytes
                # in the decoded content that is outside "decoded content starts with a PE image" (see DESIGN.md)
                nonces = (NONCES if pre == 0 else DETECT_NONCES_PREPEND) if len(stub) <= 2 else NONCES[2:]
                for nonce in nonces:
                    if len(stub) > 100:
                        # beyond the documented 1024-byte search range nothing is promised: only check "no crash"
                        full = len(stub) + (3 if marker else 0)
                        if full >= 1020:
                            blob = xorenc.encode(image, nonce, stub + (xorenc.MARKER if marker else b""), size_ok=size_ok, trailer=trailer)
                            res = detect(blob)
                            acc.transitions += 1
                            acc.case((stub, marker, size_ok, len(trailer), nonce), outcome=res[:2])
                            if res[0] == "EXC":
                                acc.fail("C09/detect/wrong-exception", dict(meta, kind="detect", stub=stub.hex(), marker=marker, size_ok=size_ok, trailer=len(trailer), nonce=nonce.hex()), "result or ValueError", res[1])
                            elif res[0] == "ok" and res[1] != full:
                                acc.fail("C09/detect/wrong-nonce-offset", dict(meta, kind="detect", stub=stub.hex(), marker=marker, size_ok=size_ok, trailer=len(trailer), nonce=nonce.hex()), {"nonce_offset": full}, list(res[:2]))
                            continue
                    detect_case(acc, image, stub, marker, size_ok, trailer, nonce, meta)
    acc.sample({"arch": arch, "decoded_prepend": pre, "stub": "fce8", "marker": True, "size_consistent": False, "trailer": 5, "expect_nonce_offset": 5})


def chunk_detect_maxrange(chunk, acc):
    """The caller-supplied candidate search range: a stage whose nonce lies comfortably inside the range is located
    (by the marker, by the size field, or both) whatever the range is; beyond the range nothing is promised except
    "documented result or ValueError", and a reported offset is never a wrong one."""
    from dissect.cobaltstrike.xordecode import XorEncodedFile

    arch = chunk["arch"]
    image = refpe.build_pe(arch=arch, data=lcg(64, acc.seed + 1))
    stubs = [("plain", b"\x90" * L) for L in (0, 5, 40, 120, 600, 1500, 2000)]
    # an early marker-like decoy far in front of the real end of the stub
    stubs += [("decoy", b"\x90" * 100 + xorenc.MARKER + b"\x90" * k) for k in (1397, 1897)]
    for sname, stub in stubs:
        for marker, size_ok in ((True, True), (True, False), (False, True)):
            full = stub + (xorenc.MARKER if marker else b"")
            L = len(full)
            blob = xorenc.encode(image, NONCES[2], full, size_ok=size_ok, trailer=b"" if size_ok else b"T")
            for R in (16, 64, 128, 512, 1024, 2048, 4096):
                acc.states += 1
                acc.transitions += 1
                case = {"kind": "maxrange", "arch": arch, "stub": sname, "stub_len": len(stub), "marker": marker, "size_ok": size_ok, "maxrange": R, "seed": acc.seed}
                try:
                    xf = XorEncodedFile.from_file(io.BytesIO(blob), maxrange=R)
                    res = ("ok", xf.nonce_offset)
                except ValueError:
                    res = ("ValueError",)
                except Exception as e:  # noqa
                    res = ("EXC", f"{type(e).__name__}: {e}")
                inside = L + 8 <= R
                acc.case((sname, len(stub), marker, size_ok, R), nontrivial=True, outcome=(res[0], inside))
                if res[0] == "EXC":
                    acc.fail("C09/detect/maxrange/wrong-exception", case, "result or ValueError", res[1])
                elif res[0] == "ok":
                    if res[1] != L:
                        acc.fail("C09/detect/maxrange/wrong-nonce-offset", case, {"nonce_offset": L}, list(res))
                    elif xf.tell() != 0 or xf.read(len(image)) != image:
                        acc.fail("C09/detect/maxrange/view-not-image", case, "decoded image at position 0", "different bytes")
                elif inside:
                    acc.fail("C09/detect/maxrange/not-detected", case, {"nonce_offset": L}, list(res))
    acc.sample({"arch": arch, "nonce_offsets": [0, 5, 40, 120, 600, 1500, 2000], "maxrange": [16, 64, 128, 512, 1024, 2048, 4096], "located_by": ["marker+size", "marker", "size"]})


def chunk_detect_negative(chunk, acc):
    img = refpe.build_pe(arch="x86", data=lcg(64, acc.seed + 2))
    negatives = {
        "empty": b"", "1byte": b"\x00", "7bytes": b"\x00" * 7, "8zero": b"\x00" * 8, "text": b"hello world, this is not a beacon\n" * 40,
        "rawpe": img, "rawpe-x64": refpe.build_pe(arch="x64"), "ff": b"\xff" * 64, "lcg": lcg(3000, acc.seed + 3),
        "marker-only": b"\x90\x90\xff\xff\xff" + lcg(300, 5),
    }
    # size-consistent header in front of content that is not a PE image
    negatives["size-ok-not-pe"] = xorenc.encode(lcg(600, acc.seed + 9), NONCES[2], b"")
    for name, blob in negatives.items():
        acc.states += 1
        acc.transitions += 1
        res = detect(blob)
        acc.case(name, outcome=res[:2])
        if res[0] != "ValueError":
            acc.fail("C09/detect/negative/" + ("wrong-exception" if res[0] == "EXC" else "false-detection"), {"kind": "negative", "name": name, "blob": blob.hex() if len(blob) < 5000 else None, "seed": acc.seed}, "ValueError", list(res[:2]))
    acc.sample({"negative_inputs": sorted(negatives)})


def run_chunk(chunk, acc):
    {"graph": chunk_graph, "unmerged": chunk_unmerged, "detect": chunk_detect, "detect_negative": chunk_detect_negative, "detect_maxrange": chunk_detect_maxrange}[chunk["kind"]](chunk, acc)


def replay(case):
    if case["kind"] == "hist":
        plain, nonce = unhx(case["plain"]), unhx(case["nonce"])
        xf, ref = make(plain, nonce, case["nonce_offset"], case.get("size_ok", True))
        obs, exp = [], []
        bad = None
        for op in case["history"]:
            op = tuple(op)
            mis, got, _ = step_compare(xf, ref, op)
            obs.append([list(op), got, None if mis else "ok"])
            if mis:
                bad = mis
                break
        return {"ok": bad is None, "expected": bad[2] if bad else None, "observed": {"steps": obs, "mismatch": list(bad[:2]) if bad else None}}
    if case["kind"] == "detect":
        class A:  # minimal accumulator
            def __init__(s): s.f = []; s.transitions = 0
            def case(s, *a, **k): pass
            def fail(s, sig, case, exp, obs): s.f.append((sig, exp, obs))
        a = A()
        image = b"\x90" * case["prepend"] + refpe.build_pe(arch=case["arch"], data=lcg(64, case["seed"] + 1))
        trailer = {0: b"", 1: b"\x00", 5: b"TRAIL"}[case["trailer"]]
        stub = unhx(case["stub"])
        if len(stub) > 100:
            full = stub + (xorenc.MARKER if case["marker"] else b"")
            res = detect(xorenc.encode(image, unhx(case["nonce"]), full, size_ok=case["size_ok"], trailer=trailer))
            ok = res[0] == "ValueError" or (res[0] == "ok" and res[1] == len(full))
            return {"ok": ok, "expected": {"nonce_offset": len(full)}, "observed": list(res[:2])}
        detect_case(a, image, stub, case["marker"], case["size_ok"], trailer, unhx(case["nonce"]), {})
        return {"ok": not a.f, "expected": a.f[0][1] if a.f else None, "observed": a.f[0][2] if a.f else None}
    if case["kind"] == "negative":
        blob = unhx(case["blob"]) if case.get("blob") is not None else None
        if blob is None:
            return {"ok": True, "expected": None, "observed": "blob too large to record; rerun the chunk"}
        res = detect(blob)
        return {"ok": res[0] == "ValueError", "expected": "ValueError", "observed": list(res[:2])}
    if case["kind"] == "maxrange":
        from vmc.runner import Acc

        a = Acc("replay", "quick", case.get("seed", 0))
        chunk_detect_maxrange({"arch": case["arch"]}, a)
        v = next((v for v in a.violations if all(v["case"].get(k) == case.get(k) for k in ("stub", "stub_len", "marker", "size_ok", "maxrange"))), None)
        return {"ok": v is None, "expected": v["expected"] if v else None, "observed": v["observed"] if v else None}
    raise ValueError(case["kind"])


def standalone(case):
    if case and case.get("kind") == "hist":
        return (
            "import io, struct\nfrom dissect.cobaltstrike.xordecode import XorEncodedFile\n"
            f"plain = bytes.fromhex({case['plain']!r}); nonce = bytes.fromhex({case['nonce']!r}); off = {case['nonce_offset']}\n"
            "c = bytearray(nonce)\nfor i, b in enumerate(plain): c.append(b ^ c[i])\n"
            "blob = b'\\x90' * off + nonce + bytes(a ^ b for a, b in zip(struct.pack('<I', len(plain)), nonce)) + bytes(c[4:])\n"
            "xf = XorEncodedFile(io.BytesIO(blob), nonce_offset=off); ref = io.BytesIO(plain)\n"
            f"for op in {case['history']!r}:\n"
            "    for f in (xf, ref):\n"
            "        r = getattr(f, op[0])(*op[1:]); print(type(f).__name__, op, r if op[0] != 'seek' else '', f.tell())\n"
        )
    return None
