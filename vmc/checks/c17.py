"""C17 - Guardrails-protected configurations are recovered iff the checksum matches (forms G + D)."""

from __future__ import annotations

import io
import itertools
import struct

from vmc.ref import config as RC
from vmc.ref import guardrails as G
from vmc.ref import pe as refpe
from vmc.ref import tlv, xorenc
from vmc.runner import lcg

ID = "C17"
LEVEL = "model_checking"
RULE = (
    "G: protected areas are built by the reference masker (vmc/ref/guardrails.py, validated byte-for-byte against the "
    "real sample) for every environmental key length 2..256 x key content family x configuration x guard-option "
    "subsets/orders x position of the area x raw/XorEncoded container, extracted with BeaconConfig.from_bytes and "
    "compared (settings, key, guard settings, checksum, offsets). D: every single-byte deviation of the deviation "
    "menu (masked configuration bytes, checksum setting bytes, guard marker bytes, environmental key bytes) must end "
    "in ValueError or in a configuration whose recomputed checksum equals the stored one; the metadata iterator must "
    "then report no unmasked configuration. non-trivial = every case (each is a distinct protected payload)"
    '. Added: marker alignments around 8192 / 16384, XorEncoded and PE containers with offsets checked, explicit single-byte key lists, a configuration that fills most of the protected area. '
)
ASSUMPTIONS = [
    "the configuration is padded with zeros to 6144 bytes (constant padding is what makes key recovery possible at all)",
    "environmental keys are primitive (not periodic); a periodic key is XOR-equivalent to its period",
    "read-buffer size is left at its default (the statement does not quantify over it)",
]
BOUNDS = {"quick": {"keylens": "all", "corrupt_step": 128}, "thorough": {"keylens": "all", "corrupt_step": 4}}


def env_key(n, family, seed):
    if family == "lcg":
        k = bytes(lcg(n, seed + n))
    elif family == "ascii":
        k = bytes(0x41 + ((i * 7 + n) % 26) for i in range(n))
    else:  # sparse: mostly zero bytes with a few set
        k = bytes(((i % 250) + 1) if i % 5 == 0 else 0 for i in range(n))
    if not G.is_primitive(k):
        k = k[:-1] + bytes([k[-1] ^ 0x5A])
    assert G.is_primitive(k)
    return k


OPTS = {G.G_USER: b"\x12\x34", G.G_COMPUTER: b"\xab\xcd", G.G_DOMAIN: b"\x00\x01", G.G_LOCAL_IP: b"\x0a\x00\x00\x05"}


def configs():
    # "large": settings reach beyond byte 4096 of the 6144-byte protected area
    large = RC.http_block(extra=[(32, 3, bytes(lcg(1200, 5))), (33, 3, bytes(lcg(1100, 6))), (34, 3, bytes(lcg(900, 7))), (35, 1, b"\x00\x02"), (29, 3, b"%windir%\\syswow64\\rundll32.exe\x00".ljust(64, b"\x00")), (37, 2, b"\x00\x00\x30\x39")])
    assert 4200 < len(large) < G.CONFIG_SIZE
    return {"minimal": tlv.encode([(1, 1, b"\x00\x00"), (2, 1, b"\x00\x50")]), "realistic": RC.http_block(), "large": large}


def plan(tier, seed):
    ch = []
    for n in range(2, 257):
        ch.append({"key": f"keylen/{n}", "kind": "keylen", "n": n, "cost": 20 + n})
    ch.append({"key": "options", "kind": "options", "cost": 400})
    ch.append({"key": "positions", "kind": "positions", "cost": 300})
    for part in range(16):
        ch.append({"key": f"corrupt/config/{part}", "kind": "corrupt_config", "part": part, "cost": 400})
    for part in range(6):
        ch.append({"key": f"corrupt/guard/{part}", "kind": "corrupt_guard", "part": part, "cost": 300})
    ch.append({"key": "corrupt/key", "kind": "corrupt_key", "cost": 200})
    return ch


def extract(payload: bytes, xor_keys=None):
    from dissect.cobaltstrike import beacon

    try:
        if xor_keys is not None:
            return beacon.BeaconConfig.from_bytes(payload, xor_keys=xor_keys)
        return beacon.BeaconConfig.from_bytes(payload)
    except ValueError as e:
        return f"ValueError: {e}"
    except Exception as e:  # noqa
        return f"EXC {type(e).__name__}: {e}"


def check_positive(acc, payload, area_off, cfg_block, key, options, label, case, image=None):
    bc = extract(payload, [bytes.fromhex(k) for k in case["xor_keys"]] if case.get("xor_keys") else None)
    acc.transitions += 1
    acc.case(label, outcome=bc[:30] if isinstance(bc, str) else (len(bc.settings_tuple), len(key)))
    if isinstance(bc, str):
        acc.fail("C17/recover/not-recovered" if bc.startswith("ValueError") else "C17/recover/exception", case, "configuration", bc)
        return
    g = bc.guardrails
    if g is None:
        # the plain (unprotected) search returned something before the Guardrails path was tried: the masked area
        # itself contains the 7-byte config header under a default key
        sig = "C17/recover/masked-area-collides-with-plain-header"
        if len(key) <= 4:
            sig += f"/envkey={key.hex()}/xorkey={bc.xorkey.hex() if bc.xorkey else None}"
        acc.fail(sig, case, "guardrails metadata and the original configuration", {"guardrails": None, "xorkey": bc.xorkey.hex() if bc.xorkey else None, "first_settings": [(s.index.value, s.length) for s in bc.settings_tuple][:4]})
        return
    cb = cfg_block.ljust(G.CONFIG_SIZE, b"\x00")
    want = {
        "settings": tlv.decode(cb),
        "payload_xor_key": key,
        "guard": [(o, G.OPTION_SHAPES[o][0], G.OPTION_SHAPES[o][1], v) for o, v in options] + [(G.G_CHECKSUM, 2, 4, struct.pack(">I", G.checksum(cb) + 1))],
        "checksum": G.checksum(cb) + 1,
        "beacon_config_offset": area_off,
        "guard_config_offset": area_off + G.CONFIG_SIZE,
        "xorkey": b"\x2e",
        "unmasked": cb,
    }
    got = {
        "settings": [(s.index.value, s.type.value, s.length, bytes(s.value)) for s in bc.settings_tuple],
        "payload_xor_key": g.payload_xor_key,
        "guard": [(s.option.value, s.type.value, s.length, bytes(s.value)) for s in g.settings],
        "checksum": g.checksum,
        "beacon_config_offset": g.beacon_config_offset,
        "guard_config_offset": g.guard_config_offset,
        "xorkey": bc.xorkey,
        "unmasked": bytes(g.unmasked_beacon_config or b""),
    }
    if image is not None:
        want.update(architecture=image[0], pe_compile_stamp=image[1], pe_export_stamp=image[2])
        got.update(architecture=bc.architecture, pe_compile_stamp=bc.pe_compile_stamp, pe_export_stamp=bc.pe_export_stamp)
    bad = [k for k in want if want[k] != got[k]]
    if bad:
        acc.fail("C17/recover/" + "+".join(bad), case, {k: _j(want[k]) for k in bad}, {k: _j(got[k]) for k in bad})


def _j(v):
    if isinstance(v, bytes):
        return v.hex()[:80]
    if isinstance(v, list):
        return [[x.hex()[:24] if isinstance(x, bytes) else x for x in t] for t in v[:6]]
    return v


def chunk_keylen(chunk, acc):
    n = chunk["n"]
    C = configs()
    fams = ("lcg", "ascii", "sparse") if n <= 24 or n in (64, 100, 128, 255, 256) else (("lcg", "ascii", "sparse")[n % 3],)
    for fam in fams:
        key = env_key(n, fam, acc.seed)
        for cname in ("realistic",) if n > 8 else ("realistic", "minimal"):
            acc.states += 1
            area, cb, g = G.protect(C[cname], key, [(G.G_COMPUTER, OPTS[G.G_COMPUTER])])
            pre = bytes(lcg(37, acc.seed + 1))
            payload = pre + area + bytes(lcg(50, acc.seed + 2))
            check_positive(acc, payload, len(pre), C[cname], key, [(G.G_COMPUTER, OPTS[G.G_COMPUTER])], (n, fam, cname), {"kind": "positive", "keylen": n, "family": fam, "config": cname, "options": [G.G_COMPUTER], "pre": 37, "post": 50, "container": "raw", "seed": acc.seed})
    acc.sample({"env_key_len": n, "families": list(fams), "config": "realistic (1.9 KB of 6144)", "guard": ["GUARD_COMPUTER", "GUARD_PAYLOAD_CHECKSUM"]})


def chunk_options(chunk, acc):
    C = configs()
    key = env_key(11, "lcg", acc.seed)
    kinds = (G.G_USER, G.G_COMPUTER, G.G_DOMAIN, G.G_LOCAL_IP)
    for r in range(1, 5):
        for subset in itertools.combinations(kinds, r):
            for order in {subset, subset[::-1]}:
                acc.states += 1
                opts = [(o, OPTS[o]) for o in order]
                area, cb, g = G.protect(C["realistic"], key, opts)
                payload = b"\x90" * 16 + area
                check_positive(acc, payload, 16, C["realistic"], key, opts, ("opts", order), {"kind": "positive", "keylen": 11, "family": "lcg", "config": "realistic", "options": list(order), "pre": 16, "post": 0, "container": "raw-nop", "seed": acc.seed})
    # a configuration that fills most of the protected area, and the caller's single-byte key list given explicitly
    # (the documented default list, its reverse, the Guardrails key alone): the same result as without the argument
    opts = [(G.G_COMPUTER, OPTS[G.G_COMPUTER])]
    for cname in ("large", "realistic"):
        for n in (2, 11, 256):
            key = env_key(n, "lcg", acc.seed)
            area, cb, g = G.protect(C[cname], key, opts)
            payload = b"\x90" * 16 + area + b"\x90" * 9
            for xk in (None, ["69", "2e", "00"], ["00", "2e", "69"], ["2e"]):
                acc.states += 1
                case = {"kind": "positive", "keylen": n, "family": "lcg", "config": cname, "options": [G.G_COMPUTER], "pre": 16, "post": 9, "container": "raw-nop", "seed": acc.seed}
                if xk:
                    case["xor_keys"] = xk
                check_positive(acc, payload, 16, C[cname], key, opts, ("big", cname, n, tuple(xk or ())), case)
    acc.sample({"guard_option_subsets": 15, "orders": "as listed and reversed"})


def build_container(kind, area, seed):
    if kind == "raw":
        return None
    img = refpe.build_pe(arch="x64" if "64" in kind else "x86", data=b"\x33" * 64 + area + b"\x44" * 32)
    lay = refpe.layout("x64" if "64" in kind else "x86", 0x80, 0)
    off = lay["data_off"] + 64
    if kind.startswith("pe"):
        return img, off
    return xorenc.encode(img, stub=xorenc.CALL_STUB), off


def chunk_positions(chunk, acc):
    C = configs()
    for klen, fam in ((5, "ascii"), (16, "lcg")):
        key = env_key(klen, fam, acc.seed)
        opts = [(G.G_USER, OPTS[G.G_USER]), (G.G_LOCAL_IP, OPTS[G.G_LOCAL_IP])]
        area, cb, g = G.protect(C["realistic"], key, opts)
        for pre, post in ((0, 0), (0, 100), (1, 0), (1, 7), (5000, 3000), (8191, 0), (8192, 1), (6143, 0)):
            acc.states += 1
            payload = bytes(lcg(pre, acc.seed + 3)) + area + bytes(lcg(post, acc.seed + 4))
            check_positive(acc, payload, pre, C["realistic"], key, opts, ("pos", klen, pre, post), {"kind": "positive", "keylen": klen, "family": fam, "config": "realistic", "options": [G.G_USER, G.G_LOCAL_IP], "pre": pre, "post": post, "container": "raw", "seed": acc.seed})
        if klen == 5:
            # the guard marker (area offset 6138..6149) at every alignment around the 4096/8192/16384 read boundaries
            for B in (4096, 8192, 16384):
                for d in range(-1, 13):
                    pre = B - 6138 - d
                    if pre < 0:
                        continue
                    acc.states += 1
                    payload = bytes(lcg(pre, acc.seed + 3)) + area + bytes(lcg(9, acc.seed + 4))
                    check_positive(acc, payload, pre, C["realistic"], key, opts, ("boundary", B, d), {"kind": "positive", "keylen": klen, "family": fam, "config": "realistic", "options": [G.G_USER, G.G_LOCAL_IP], "pre": pre, "post": 9, "container": "raw", "seed": acc.seed})
        for kind in ("pe86", "pe64", "xor86", "xor64"):
            acc.states += 1
            payload, off = build_container(kind, area, acc.seed)
            check_positive(acc, payload, off, C["realistic"], key, opts, ("cont", klen, kind), {"kind": "container", "keylen": klen, "family": fam, "container": kind, "seed": acc.seed}, image=("x64" if "64" in kind else "x86", 0x5FA0B201, 0x5FA0B264))
            # the extraction generator itself on a handle that was used before (raw and decoded views): positioned at 2,
            # at its end, and a second extraction on the same handle - always the whole payload is searched
            from dissect.cobaltstrike import guardrails as lib_gr
            from dissect.cobaltstrike.xordecode import XorEncodedFile

            def handle():
                return XorEncodedFile.from_file(io.BytesIO(payload)) if kind.startswith("xor") else io.BytesIO(payload)

            want = (off, off + G.CONFIG_SIZE, key, C["realistic"].ljust(G.CONFIG_SIZE, b"\x00"))
            for label, prep in (("fresh", lambda fh: None), ("after-read-2", lambda fh: fh.read(2)), ("at-end", lambda fh: fh.seek(0, 2)), ("second-extraction", lambda fh: list(lib_gr.iter_guardrail_configs_with_beacon(fh)))):
                acc.transitions += 1
                try:
                    fh = handle()
                    prep(fh)
                    got = [(g.beacon_config_offset, g.guard_config_offset, g.payload_xor_key, bytes(g.unmasked_beacon_config or b"")) for g in lib_gr.iter_guardrail_configs_with_beacon(fh)]
                except Exception as e:  # noqa
                    got = f"{type(e).__name__}: {e}"
                acc.case(("handle", klen, kind, label), outcome=str(got)[:40])
                if got != [want]:
                    acc.fail("C17/recover/depends-on-handle-position", {"kind": "container", "keylen": klen, "family": fam, "container": kind, "handle": label, "seed": acc.seed}, [want[0], want[1], want[2].hex()], got if isinstance(got, str) else [[g[0], g[1], None if g[2] is None else g[2].hex()] for g in got])
    acc.sample({"positions": [[0, 0], [1, 7], [5000, 3000], [8191, 0]], "containers": ["raw", "PE .data", "XorEncoded PE"]})


# ---- D: corruptions -------------------------------------------------------------------------------------------------


def check_negative(acc, payload, label, case, area_off):
    """After a corruption: ValueError, or a configuration that verifies against the stored checksum."""
    from dissect.cobaltstrike import guardrails as lg

    bc = extract(payload)
    acc.transitions += 1
    acc.case(label, outcome=bc[:24] if isinstance(bc, str) else "config")
    if isinstance(bc, str):
        if not bc.startswith("ValueError"):
            acc.fail("C17/corrupt/wrong-exception", case, "ValueError", bc)
            return
    else:
        g = bc.guardrails
        if g is None:
            # found as a plain configuration under a default key: must then really be in the payload
            return
        cfg = bytes(g.unmasked_beacon_config or b"")
        if G.checksum(cfg) + 1 != g.checksum:
            acc.fail("C17/corrupt/unverified-configuration-reported", case, {"stored_checksum": g.checksum}, {"recomputed_plus_1": G.checksum(cfg) + 1})
            return
    # the metadata iterator: anything it reports with an unmasked configuration must verify
    try:
        for md in lg.iter_guardrail_configs_with_beacon(io.BytesIO(payload)):
            if md.unmasked_beacon_config and G.checksum(bytes(md.unmasked_beacon_config)) + 1 != md.checksum:
                acc.fail("C17/corrupt/metadata-with-unverified-configuration", case, {"stored_checksum": md.checksum}, {"recomputed_plus_1": G.checksum(bytes(md.unmasked_beacon_config)) + 1})
                return
    except ValueError:
        pass
    except Exception as e:  # noqa
        acc.fail("C17/corrupt/iterator-exception", case, "metadata or ValueError", f"{type(e).__name__}: {e}")


def base_instance(seed):
    C = configs()
    key = env_key(13, "lcg", seed)
    opts = [(G.G_COMPUTER, OPTS[G.G_COMPUTER])]
    area, cb, g = G.protect(C["realistic"], key, opts)
    pre = bytes(lcg(6200, seed + 5))  # enough room in front so that a shifted marker cannot seek negative
    return pre, area, bytes(lcg(40, seed + 6)), key, C["realistic"], opts


def chunk_corrupt_config(chunk, acc):
    pre, area, post, key, cfg, opts = base_instance(acc.seed)
    step = BOUNDS[acc.tier]["corrupt_step"]
    # zero deviations first
    if chunk["part"] == 0:
        check_positive(acc, pre + area + post, len(pre), cfg, key, opts, "k0", {"kind": "corrupt", "target": "none", "pos": 0, "value": 0, "seed": acc.seed})
    positions = [p for p in range(0, G.CONFIG_SIZE, step)] + list(range(0, 12)) + list(range(len(cfg) - 4, len(cfg) + 4)) + list(range(G.CONFIG_SIZE - 8, G.CONFIG_SIZE))
    positions = sorted(set(positions))
    stride = set(range(0, G.CONFIG_SIZE, step))
    for i, pos in enumerate(positions):
        if i % 16 != chunk["part"]:
            continue
        acc.states += 1
        for xv in (0x01, 0x80, 0xFF) if (pos not in stride or acc.tier == "thorough") else (0x80,):
            a = bytearray(area)
            a[pos] ^= xv
            check_negative(acc, pre + bytes(a) + post, ("cfg", pos, xv), {"kind": "corrupt", "target": "config", "pos": pos, "value": xv, "seed": acc.seed}, len(pre))
    acc.sample({"corruption": "masked configuration byte ^ {01,80,ff}", "positions": f"every {step}th byte + structural windows", "expect": "ValueError or checksum-verified configuration"})


def chunk_corrupt_guard(chunk, acc):
    pre, area, post, key, cfg, opts = base_instance(acc.seed)
    glen = 6 + 2 + 6 + 4 + 2  # option record, checksum record, terminator
    part = chunk.get("part")
    for pos in range(0, glen + 4):
        if part is not None and pos % 6 != part:
            continue
        acc.states += 1
        for xv in (0x01, 0x10, 0x80, 0xFF):
            a = bytearray(area)
            a[G.CONFIG_SIZE + pos] ^= xv
            check_negative(acc, pre + bytes(a) + post, ("guard", pos, xv), {"kind": "corrupt", "target": "guard", "pos": pos, "value": xv, "seed": acc.seed}, len(pre))
    if part not in (None, 0):
        acc.sample({"corruption": "guard configuration bytes", "part": part})
        return
    # wrong stored checksum (off by one in both directions, zero, maximal)
    for delta in (0, 2, -1, 1000):
        area2, _, _ = G.protect(cfg, key, opts, checksum_delta=delta)
        acc.states += 1
        check_negative(acc, pre + area2 + post, ("delta", delta), {"kind": "corrupt", "target": "checksum_delta", "pos": 0, "value": delta, "seed": acc.seed}, len(pre))
    # truncations of the protected area
    full = pre + area
    for cut in (len(pre) + G.CONFIG_SIZE + 6, len(pre) + G.CONFIG_SIZE + 13, len(pre) + G.CONFIG_SIZE + 19, len(pre) + G.CONFIG_SIZE + 100, len(full) - 1):
        acc.states += 1
        check_negative(acc, full[:cut], ("trunc", cut), {"kind": "corrupt", "target": "truncate", "pos": cut, "value": 0, "seed": acc.seed}, len(pre))
    acc.sample({"corruption": "guard configuration bytes (marker, option record, checksum record) and stored checksum +-", "expect": "ValueError or verified configuration"})


def chunk_corrupt_key(chunk, acc):
    """The configuration masked with a key that differs from a periodic one in a single position of the padding."""
    C = configs()
    key = env_key(13, "lcg", acc.seed)
    opts = [(G.G_COMPUTER, OPTS[G.G_COMPUTER])]
    cb = C["realistic"].ljust(G.CONFIG_SIZE, b"\x00")
    for pos in list(range(0, 13)) + [13 * 50 + 3, 13 * 200 + 7, G.CONFIG_SIZE - 1]:
        for xv in (0x01, 0xFF):
            acc.states += 1
            stream = bytearray(G.rep(key, G.CONFIG_SIZE))
            if pos < 13:
                # a different key byte everywhere: the area is masked with key' but the checksum was computed for key
                k2 = bytearray(key)
                k2[pos] ^= xv
                stream = bytearray(G.rep(bytes(k2), G.CONFIG_SIZE))
                # checksum of the *original* configuration is stored, the masked bytes decode to cb ^ (key ^ key')
            else:
                stream[pos] ^= xv
            masked = G.xorb(G.xorb(cb, bytes(stream)), b"\x2e" * G.CONFIG_SIZE)
            g = G.guard_settings(opts, cb).ljust(G.GUARD_SIZE, b"\x00")
            mg = G.xorb(G.xorb(g, masked[::-1][: G.GUARD_SIZE]), b"\x8a" * G.GUARD_SIZE)
            payload = bytes(lcg(6200, acc.seed + 5)) + masked + mg
            if pos < 13:
                # masking with another full key is simply another valid instance: it must be recovered with key'
                check_positive(acc, payload, 6200, C["realistic"], bytes(k2), opts, ("key", pos, xv), {"kind": "corrupt", "target": "key", "pos": pos, "value": xv, "seed": acc.seed})
            else:
                check_negative(acc, payload, ("key", pos, xv), {"kind": "corrupt", "target": "key", "pos": pos, "value": xv, "seed": acc.seed}, 6200)
    acc.sample({"corruption": "one byte of the repeating key stream flipped", "expect": "ValueError or verified configuration"})


def run_chunk(chunk, acc):
    globals()["chunk_" + chunk["kind"]](chunk, acc)


def replay(case):
    from vmc.runner import Acc

    a = Acc("replay", "quick", case.get("seed", 0))
    if case["kind"] == "positive":
        C = configs()
        key = env_key(case["keylen"], case["family"], case["seed"])
        opts = [(o, OPTS[o]) for o in case["options"]]
        area, cb, g = G.protect(C[case["config"]], key, opts)
        if case["container"] == "raw-nop":
            pre, post = b"\x90" * case["pre"], b"\x90" * case.get("post", 0)
        elif case["pre"] == 37:
            pre, post = bytes(lcg(37, case["seed"] + 1)), bytes(lcg(50, case["seed"] + 2))
        else:
            pre, post = bytes(lcg(case["pre"], case["seed"] + 3)), bytes(lcg(case["post"], case["seed"] + 4))
        check_positive(a, pre + area + post, len(pre), C[case["config"]], key, opts, "replay", case)
    elif case["kind"] == "container":
        chunk_positions({}, a)
    else:
        t = case["target"]
        if t in ("config", "none"):
            pre, area, post, key, cfg, opts = base_instance(case["seed"])
            arr = bytearray(area)
            if t == "config":
                arr[case["pos"]] ^= case["value"]
                check_negative(a, pre + bytes(arr) + post, "replay", case, len(pre))
            else:
                check_positive(a, pre + area + post, len(pre), cfg, key, opts, "replay", case)
        elif t == "key":
            chunk_corrupt_key({}, a)
        else:
            chunk_corrupt_guard({}, a)
    v = a.violations[0] if a.violations else None
    return {"ok": v is None, "expected": v["expected"] if v else None, "observed": v["observed"] if v else None}
