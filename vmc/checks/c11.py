"""C11 - The dictionary view reports exactly what the profile says (forms G + H)."""

from __future__ import annotations

import copy
import itertools

from vmc.checks.c10 import DT_POSITIONS, TOP_KW, dt_sentence, mk, _fill
from vmc.checks.c12 import PARENTS, wrap
from vmc.kernel import HistoryExplorer, sequences
from vmc.ref import profile as RP

ID = "C11"
LEVEL = "model_checking"
RULE = (
    "G: the sentence space of C10 (single statements x literal family, ordered pairs inside each block kind, data "
    "transforms up to the step bound in all 10 positions, variants) is parsed and as_dict() is compared with the "
    "independent dictionary semantics of vmc/ref/profile.py (strict for options, pairs, execute/BeaconGate and the "
    "data-transform positions valid in Cobalt Strike; either representation where the statement is silent); each "
    "non-variant sentence is rebuilt through the block-builder API and must equal the parsed profile in tree, text "
    "and dictionary. H: every history up to the depth bound over {set_option x4, set_config_block x4, as_dict, "
    "properties, as_text} on one live C2Profile; after each history as_dict() must equal that of a freshly parsed "
    "reference rendering. non-trivial = the sentence / history contains at least one statement / modification"
    '. Added: builder equivalence through keyword arguments in statement order (incl. dictionary key order), bytes values, repeated pair names, shared block objects, variant capitalisations, the file entry point, a missing-key read event, two/three profiles parsed from the same text. '
)
ASSUMPTIONS = [
    "modifications are made through the C2Profile object (editing a retained sub-block after a dictionary/text access is aliasing, not a modification of the profile)",
    "returned dictionaries are deep-copied before comparison and never mutated by the harness",
    "the builder API has no variant support; builder equivalence is checked for non-variant sentences with canonical literals",
    "the Reconstructor is memoised by the harness; a subset runs un-memoised",
]
BOUNDS = {"quick": {"dt_steps": 2, "hist_depth": 4}, "thorough": {"dt_steps": 3, "hist_depth": 5}}
BYTES = (b"", b"a", b'"', b"\\", b"A\x00\xff", b"a\nb", b"# ; { }", b"'")


def plan(tier, seed):
    ch = []
    for k in list(RP.PRODUCTIONS) + ["steps", "termination"]:
        ch.append({"key": f"single/{k}", "kind": "single", "blockkind": k, "cost": 500})
    for k in RP.PRODUCTIONS:
        n = len(RP.PRODUCTIONS[k])
        parts = max(1, n * n // 120)
        for p in range(parts):
            ch.append({"key": f"pairs/{k}/{p}", "kind": "pairs", "blockkind": k, "part": p, "parts": parts, "cost": n * n // parts * 2})
    for i in range(len(DT_POSITIONS)):
        ch.append({"key": f"dt/{i}", "kind": "dt", "pos": i, "cost": 600 if tier == "quick" else 4000})
    ch.append({"key": "variants", "kind": "variants", "cost": 200})
    ch.append({"key": "everything", "kind": "everything", "cost": 100})
    ch.append({"key": "builder-kwargs", "kind": "kwargs", "cost": 300})
    for first in range(len(EVENTS)):
        ch.append({"key": f"hist/{first}", "kind": "hist", "first": first, "cost": len(EVENTS) ** (BOUNDS[tier]["hist_depth"] - 1)})
    for first in range(len(TWO_EVENTS)):
        ch.append({"key": f"two-profiles/{first}", "kind": "two", "first": first, "cost": len(TWO_EVENTS) ** (BOUNDS[tier]["hist_depth"] - 1)})
    ch.append({"key": "uncached", "kind": "uncached", "cost": 1500})
    return ch


# ------------------------------------------------------------------------------------------------------------------
# G: dictionary semantics + builder equivalence
# ------------------------------------------------------------------------------------------------------------------


def has_variant(sent):
    for st in sent:
        if st[0] == "b" and (st[3] is not None or has_variant(st[5])):
            return True
    return False


KIND_CLASS_NAMES = {
    "http_config": "HttpConfigBlock", "http_stager": "HttpStagerBlock", "http_get": "HttpGetBlock", "http_post": "HttpPostBlock",
    "stage": "StageBlock", "process_inject": "ProcessInjectBlock", "postex": "PostExBlock", "dns_beacon": "DnsBeaconBlock",
    "http_beacon": "HttpBeaconBlock", "http_options": "HttpOptionsBlock", "http_client": "HttpOptionsBlock",
    "stage_transform": "StageTransformBlock", "execute": "ExecuteOptionsBlock", "beacon_gate": "BeaconGateBlock",
    "https_certificate": "ConfigBlock", "code_signer": "ConfigBlock",
}
_alias_cache = {}


def live_alias(cp, kind, st):
    """The alias the live grammar gives this statement form (the table's alias, modulo ALIAS_SPELLING typos)."""
    key = (kind, st[2], len(st[3]) if st[0] == "s" else None)
    if key not in _alias_cache:
        alias = st[1]
        if alias in RP.ALIAS_SPELLING:
            live = {str(r.alias) for r in cp.c2profile_parser.rules if r.alias}
            alias = next((a for a in RP.ALIAS_SPELLING[alias] if a in live), alias)
        _alias_cache[key] = alias
    return _alias_cache[key]


def build_block(cp, blk, kind, body):
    """Mechanical translation of statements into builder calls on `blk`. Returns False if not expressible."""
    for st in body:
        if st[0] == "s":
            alias = live_alias(cp, kind, st)
            vals = [RP.decode_literal(x) for x in st[3]]
            if kind == "start":
                blk.set_option(st[2][-1], vals[0])
            elif len(vals) == 1:
                cp.ConfigBlock.set_option(blk, alias, vals[0])
            elif len(vals) == 2:
                blk._pair(alias, [(vals[0], vals[1])])
            else:
                blk._enable(alias, True)
        elif st[0] == "b":
            if st[3] is not None:
                return False
            child = getattr(cp, KIND_CLASS_NAMES[st[4]])()
            if not build_block(cp, child, st[4], st[5]):
                return False
            blk.set_config_block(st[1], child)
        else:
            if len(st[3]) != 1:
                return False
            steps, term = st[3][0]
            spec = []
            for s in list(steps) + [term]:
                name = s[2][0]
                spec.append(name if not s[3] else (name, RP.decode_literal(s[3][0])))
            blk.set_config_block(st[1], cp.DataTransformBlock(steps=spec))
    return True


def kwargs_for(cp, kind, body):
    """The same statements as keyword arguments of the block's constructor, in statement order (None if a keyword
    would repeat or a statement has no keyword form)."""
    kw = {}
    for st in body:
        if st[0] == "s":
            alias = live_alias(cp, kind, st)
            vals = [RP.decode_literal(x) for x in st[3]]
            if len(vals) == 1:
                val = vals[0]
            elif len(vals) == 2:
                val = [(vals[0], vals[1])]
            else:
                val = True
                if not callable(getattr(getattr(cp, KIND_CLASS_NAMES[kind]), alias, None)):
                    return None
            if len(vals) == 2 and not callable(getattr(getattr(cp, KIND_CLASS_NAMES[kind]), alias, None)):
                return None
        elif st[0] == "b":
            if st[3] is not None:
                return None
            sub = kwargs_for(cp, st[4], st[5])
            if sub is None:
                return None
            alias, val = st[1], getattr(cp, KIND_CLASS_NAMES[st[4]])(**sub)
        else:
            if len(st[3]) != 1:
                return None
            steps, term = st[3][0]
            spec = []
            for x in list(steps) + [term]:
                name = x[2][0]
                spec.append(name if not x[3] else (name, RP.decode_literal(x[3][0])))
            alias, val = st[1], cp.DataTransformBlock(steps=spec)
        if alias in kw or not alias.isidentifier():
            return None
        kw[alias] = val
    return kw


def build_profile_kwargs(cp, csent):
    """Top-level statements through explicit calls, every block below through Block(**kwargs)."""
    prof = cp.C2Profile()
    for st in csent:
        if st[0] == "s":
            prof.set_option(st[2][-1], RP.decode_literal(st[3][0]))
        elif st[0] == "b":
            if st[3] is not None:
                return None
            kw = kwargs_for(cp, st[4], st[5])
            if kw is None:
                return None
            prof.set_config_block(st[1], getattr(cp, KIND_CLASS_NAMES[st[4]])(**kw))
        else:
            return None
    return prof


def canonical(cp, sent):
    """Rewrite every literal of the sentence into the library's canonical form (what the builder would print)."""
    def lit(x):
        return cp.value_to_string(RP.decode_literal(x))

    def conv(st):
        if st[0] == "s":
            return ("s", st[1], st[2], tuple(lit(x) for x in st[3]))
        if st[0] == "b":
            return ("b", st[1], st[2], st[3], st[4], [conv(s) for s in st[5]])
        return ("dt", st[1], st[2], [([conv(s) for s in steps], conv(term)) for steps, term in st[3]])

    return [conv(s) for s in sent]


def check_sentence(acc, cp, sent, label, builder=True):
    toks = RP.sentence_tokens(sent)
    src = RP.render(toks)
    acc.transitions += 1
    case = {"kind": "sentence", "tokens": toks}
    try:
        prof = cp.C2Profile.from_text(src)
        d = copy.deepcopy(prof.as_dict())
        d2 = copy.deepcopy(prof.properties)
    except Exception as e:  # noqa
        acc.case((label, tuple(toks)), outcome="exc")
        acc.fail("C11/as_dict/exception", case, "dictionary", f"{type(e).__name__}: {str(e)[:200]}")
        return
    acc.case((label, tuple(toks)), nontrivial=bool(toks), outcome=repr(sorted(d))[:200])
    why = RP.compare_dict(d, sent)
    if why:
        pos = why.split(":")[0] if why.startswith("position") else "keys"
        acc.fail("C11/as_dict/" + ("list-position" if why.startswith("position") else "entries"), case, why, repr(d)[:400])
        return
    if d2 != d:
        acc.fail("C11/properties-differs-from-as_dict", case, repr(d)[:300], repr(d2)[:300])
        return
    if not builder or has_variant(sent):
        return
    # ---- builder equivalence on the canonical-literal version of the sentence
    csent = canonical(cp, sent)
    ctoks = RP.sentence_tokens(csent)
    try:
        parsed = cp.C2Profile.from_text(RP.render(ctoks))
        built = cp.C2Profile()
        if not build_block(cp, built, "start", csent):
            return
        acc.count("builder_equivalence_checked")
        if built.tree != parsed.tree:
            acc.fail("C11/builder/tree", dict(case, tokens=ctoks), str(parsed.tree)[:400], str(built.tree)[:400])
            return
        t1, t2 = parsed.as_text(), built.as_text()
        if t1 != t2:
            acc.fail("C11/builder/text", dict(case, tokens=ctoks), t1[:400], t2[:400])
            return
        if copy.deepcopy(built.as_dict()) != copy.deepcopy(parsed.as_dict()):
            acc.fail("C11/builder/dict", dict(case, tokens=ctoks), repr(parsed.as_dict())[:400], repr(built.as_dict())[:400])
            return
        # the same profile with every block built by its constructor's keyword arguments, in statement order
        kb = build_profile_kwargs(cp, csent)
        if kb is not None:
            acc.count("builder_kwargs_equivalence_checked")
            if kb.tree != parsed.tree or kb.as_text() != t1 or list(copy.deepcopy(kb.as_dict()).items()) != list(copy.deepcopy(parsed.as_dict()).items()):
                acc.fail("C11/builder/kwargs-order", dict(case, tokens=ctoks), str(parsed.tree)[:400], str(kb.tree)[:400])
    except Exception as e:  # noqa
        acc.fail("C11/builder/exception", dict(case, tokens=ctoks), "built profile", f"{type(e).__name__}: {str(e)[:200]}")


def chunk_single(chunk, acc):
    from vmc import profile_env

    cp = profile_env.install(True)
    kind = chunk["blockkind"]
    forms = [f for k, f in RP.all_forms() if k == kind]
    for f in forms:
        acc.states += 1
        if f[0] == "s" and f[3] > 0:
            for b in BYTES:
                lit = RP.encode_literal(b)
                lits = (lit,) if f[3] == 1 else (lit, RP.encode_literal(b"v" + b))
                check_sentence(acc, cp, wrap(kind, mk(f, lits)), "single")
            check_sentence(acc, cp, wrap(kind, mk(f, ('"\\x41\\u0042\\n"', '"\\t"'))), "single-escapes")
        else:
            check_sentence(acc, cp, wrap(kind, mk(f)), "single")
    acc.sample({"block_kind": kind, "sentence": RP.sentence_tokens(wrap(kind, mk(forms[0]))), "expected": repr(RP.ref_dict(wrap(kind, mk(forms[0])))[0])[:200]})


def chunk_pairs(chunk, acc):
    from vmc import profile_env

    cp = profile_env.install(True)
    kind = chunk["blockkind"]
    forms = RP.PRODUCTIONS[kind]
    n = 0
    for f1, f2 in itertools.product(forms, repeat=2):
        n += 1
        if n % chunk["parts"] != chunk["part"]:
            continue
        acc.states += 1
        body = [mk(f1), mk(f2, ('"b"', '"c"'))]
        for alias, kw, k in reversed(PARENTS[kind]):
            body = [("b", alias, kw, None, k, body)]
        check_sentence(acc, cp, body, "pair")
    acc.sample({"block_kind": kind, "pairs": len(forms) ** 2})


def chunk_dt(chunk, acc):
    from vmc import profile_env

    cp = profile_env.install(True)
    depth = BOUNDS[acc.tier]["dt_steps"]
    for seq in sequences(RP.TRANSFORM_STEPS, depth):
        for t in RP.TERMINATIONS:
            acc.states += 1
            steps = [mk(f, ('"x\\x00\\""',)) for f in seq]
            check_sentence(acc, cp, dt_sentence(chunk["pos"], [(steps, mk(t, ('"Cookie"',)))]), "dt")
    check_sentence(acc, cp, dt_sentence(chunk["pos"], []), "dt0")
    g1 = ([mk(RP.TRANSFORM_STEPS[1])], mk(RP.TERMINATIONS[0], ('"A"',)))
    g2 = ([mk(RP.TRANSFORM_STEPS[3]), mk(RP.TRANSFORM_STEPS[6], ('"p"',))], mk(RP.TERMINATIONS[2]))
    check_sentence(acc, cp, dt_sentence(chunk["pos"], [g1, g2]), "dt2")
    # the same position in two sibling blocks (repeated block): entries accumulate in source order
    s1 = dt_sentence(chunk["pos"], [g1])
    s2 = dt_sentence(chunk["pos"], [g2])
    check_sentence(acc, cp, s1 + s2, "dt-rep")
    acc.sample({"position": ".".join(DT_POSITIONS[chunk["pos"]][i].replace("_", "-") for i in (0, 1, 3)), "example": RP.sentence_tokens(dt_sentence(chunk["pos"], [g2])), "expected": repr(RP.ref_dict(dt_sentence(chunk["pos"], [g2])))[:300]})


def chunk_variants(chunk, acc):
    from vmc import profile_env

    cp = profile_env.install(True)
    vb = [f for f in RP.PRODUCTIONS["start"] if f[0] == "b" and f[3]]
    for f in vb:
        for variant in (None, '"default"', '"v1"', '"Default"', '"DEFAULT"', '"default "'):
            for body in ([], [mk(RP.PRODUCTIONS[f[4]][0])], [mk(x) for x in RP.PRODUCTIONS[f[4]][:2]]):
                acc.states += 1
                check_sentence(acc, cp, [("b", f[1], f[2], variant, f[4], body)], "variant")
        check_sentence(acc, cp, [("b", f[1], f[2], None, f[4], [mk(RP.PRODUCTIONS[f[4]][0])]), ("b", f[1], f[2], '"v1"', f[4], [mk(RP.PRODUCTIONS[f[4]][0], ('"other"',))])], "variant-rep")
        # a variant block FOLLOWED by other statements (another block, a global option, a data transform): their paths
        # are not affected by the variant in front of them
        after = [("b", "stage", "stage", None, "stage", [mk(RP.PRODUCTIONS["stage"][0])]), ("s", "option", ("set", "jitter"), ('"7"',))]
        for variant in ('"v1"', '"default"', '"Alt"'):
            check_sentence(acc, cp, [("b", f[1], f[2], variant, f[4], [mk(RP.PRODUCTIONS[f[4]][0])])] + after, "variant-then-more")
            check_sentence(acc, cp, [("b", f[1], f[2], variant, f[4], [])] + after[::-1] + [("b", f[1], f[2], None, f[4], [mk(RP.PRODUCTIONS[f[4]][0], ('"z"',))])], "variant-then-more")
        # the real default block next to a variant whose name differs from "default" in capitalisation only
        check_sentence(acc, cp, [("b", f[1], f[2], '"default"', f[4], [mk(RP.PRODUCTIONS[f[4]][0])]), ("b", f[1], f[2], '"Default"', f[4], [mk(RP.PRODUCTIONS[f[4]][0], ('"other"',))])], "variant-case")
    # data transform under a variant (the statement leaves the representation open; keys must still be complete)
    g = ([mk(RP.TRANSFORM_STEPS[1])], mk(RP.TERMINATIONS[2]))
    for variant in ('"default"', '"v1"'):
        s = [("b", "http_get", "http-get", variant, "http_get", [("b", "client", "client", None, "http_client", [("dt", "metadata", "metadata", [g])])])]
        check_sentence(acc, cp, s, "variant-dt")
    # the file entry point: the same text (with raw non-ASCII characters in its literals) stored in a file, written
    # with the platform's default text encoding, reports the same dictionary, tree and text as from_text
    import os
    import tempfile

    d = tempfile.mkdtemp(prefix="vmc_c11_")
    path = os.path.join(d, "p.profile")
    g = ([mk(RP.TRANSFORM_STEPS[1], ('"caf\u00e9"',))], mk(RP.TERMINATIONS[2], ('"\u00fc"',)))
    sents = [
        [("s", "option", ("set", "useragent"), ('"caf\u00e9 \u00ff"',))],
        [("b", "http_get", "http-get", None, "http_get", [("s", "uri", ("set", "uri"), ('"/\u00e9"',)), ("b", "client", "client", None, "http_client", [("s", "header", ("header",), ('"X-\u00dc"', '"\u00e4\u00f6"')), ("dt", "metadata", "metadata", [g])])])],
    ]
    try:
        for sent in sents:
            src = RP.render(RP.sentence_tokens(sent), 1)
            acc.states += 1
            acc.transitions += 1
            acc.case(("path", src), outcome="path")
            try:
                with open(path, "w") as fh:
                    fh.write(src)
            except UnicodeEncodeError:
                continue
            try:
                pt, pf = cp.C2Profile.from_text(src), cp.C2Profile.from_path(path)
                if pf.tree != pt.tree or pf.as_text() != pt.as_text() or copy.deepcopy(pf.as_dict()) != copy.deepcopy(pt.as_dict()):
                    acc.fail("C11/from_path/differs-from-from_text", {"kind": "path", "source": src}, repr(pt.as_dict())[:300], repr(pf.as_dict())[:300])
                    continue
                why = RP.compare_dict(copy.deepcopy(pf.as_dict()), sent)
                if why:
                    acc.fail("C11/from_path/entries", {"kind": "path", "source": src}, why, repr(pf.as_dict())[:300])
            except Exception as e:  # noqa
                acc.fail("C11/from_path/exception", {"kind": "path", "source": src}, "profile", f"{type(e).__name__}: {str(e)[:200]}")
    finally:
        if os.path.exists(path):
            os.unlink(path)
        os.rmdir(d)
    acc.sample({"variants": [None, "default", "v1", "Default", "DEFAULT"], "blocks": [f[2] for f in vb]})


def chunk_everything(chunk, acc):
    from vmc import profile_env

    cp = profile_env.install(True)
    everything = [mk(f) if f[0] == "s" else ("b", f[1], f[2], None, f[4], _fill(f[4])) for f in RP.PRODUCTIONS["start"]]
    acc.states += 2
    check_sentence(acc, cp, everything, "everything")
    check_sentence(acc, cp, list(reversed(everything)), "everything-reversed")
    acc.sample({"sentence": "every production in one profile", "keys": len(RP.ref_dict(everything)[0])})


def chunk_kwargs(chunk, acc):
    """Builder keyword-argument form: Block(alias=value) must equal the parsed one-statement block."""
    from vmc import profile_env

    cp = profile_env.install(True)
    for kind, clsname in KIND_CLASS_NAMES.items():
        cls = getattr(cp, clsname)
        for f in RP.PRODUCTIONS[kind]:
            if f[0] != "s":
                continue
            st = mk(f, ('"val"', '"v2"'))
            alias = live_alias(cp, kind, st)
            handler = getattr(cls, alias, None)
            n = f[3]
            if n == 1:
                kwargs = {alias: "val"}
            elif n == 2:
                if not callable(handler):
                    continue
                kwargs = {alias: [("val", "v2")]}
            else:
                if not callable(handler):
                    continue
                kwargs = {alias: True}
            variants = [(kwargs, [st])]
            if n == 2:
                # longer pair lists, with a repeated first member, a repeated second member and a repeated whole pair:
                # the block states every pair, in the order given
                for pairs in ([("val", "v2"), ("val", "v3")], [("a", "1"), ("b", "2"), ("a", "3")], [("a", "1"), ("b", "1")], [("a", "1"), ("a", "1")]):
                    variants.append(({alias: pairs}, [mk(f, ('"%s"' % a, '"%s"' % b)) for a, b in pairs]))
            for kwargs, sts in variants:
                run_kwargs(acc, cp, kind, cls, clsname, f, kwargs, sts)
    # one block object attached more than once (under two names, under the same name twice, to two parents): every
    # attachment states the block's content under the name it was attached with
    shared = [
        ("stage", "StageBlock", "StageTransformBlock", {"prepend": "AB"}, ("transform_x86", "transform_x64"), "stage { transform-x86 { prepend \"AB\"; } transform-x64 { prepend \"AB\"; } }"),
        ("http_get", "HttpGetBlock", "HttpOptionsBlock", {"header": [("A", "b")]}, ("client", "server"), "http-get { client { header \"A\" \"b\"; } server { header \"A\" \"b\"; } }"),
        ("http_post", "HttpPostBlock", "HttpOptionsBlock", {"parameter": [("k", "v")]}, ("client", "client"), "http-post { client { parameter \"k\" \"v\"; } client { parameter \"k\" \"v\"; } }"),
    ]
    for top, topcls, subcls, subkw, names, text in shared:
        for mode in ("set_config_block", "kwargs"):
            if mode == "kwargs" and names[0] == names[1]:
                continue
            acc.states += 1
            acc.transitions += 1
            acc.case(("shared-block", top, names, mode))
            try:
                sub = getattr(cp, subcls)(**subkw)
                if mode == "kwargs":
                    parent = getattr(cp, topcls)(**{names[0]: sub, names[1]: sub})
                else:
                    parent = getattr(cp, topcls)()
                    parent.set_config_block(names[0], sub)
                    parent.set_config_block(names[1], sub)
                prof = cp.C2Profile()
                prof.set_config_block(top, parent)
                parsed = cp.C2Profile.from_text(text)
                if prof.tree != parsed.tree or prof.as_text() != parsed.as_text() or prof.as_dict() != parsed.as_dict():
                    acc.fail("C11/builder/shared-block-object", {"kind": "kwargs", "block": topcls, "kwargs": f"{names} <- one {subcls} object ({mode})"}, str(parsed.tree)[:300], str(prof.tree)[:300])
            except Exception as e:  # noqa
                acc.fail("C11/builder/kwargs-exception", {"kind": "kwargs", "block": topcls, "kwargs": f"{names} <- one {subcls} object ({mode})"}, "built", f"{type(e).__name__}: {str(e)[:200]}")
    acc.sample({"builder": "HttpGetBlock(uri='val')", "equals": "http-get { set uri \"val\"; }"})


def run_kwargs(acc, cp, kind, cls, clsname, f, kwargs, sts):
    acc.states += 1
    acc.transitions += 1
    acc.case((kind, f[2], repr(kwargs)))
    try:
        blk = cls(**kwargs)
        prof = cp.C2Profile()
        path = PARENTS[kind]
        obj, okind = blk, kind
        for palias, kw, k in reversed(path[:-1]):
            parent = getattr(cp, KIND_CLASS_NAMES[k])()
            parent.set_config_block(path[path.index((palias, kw, k)) + 1][0], obj)
            obj = parent
        prof.set_config_block(path[0][0], obj)
        body = list(sts)
        for palias, kw, k in reversed(PARENTS[kind]):
            body = [("b", palias, kw, None, k, body)]
        parsed = cp.C2Profile.from_text(RP.render(RP.sentence_tokens(body)))
        if prof.tree != parsed.tree or prof.as_text() != parsed.as_text() or prof.as_dict() != parsed.as_dict():
            acc.fail("C11/builder/kwargs", {"kind": "kwargs", "block": clsname, "kwargs": repr(kwargs)}, str(parsed.tree)[:300], str(prof.tree)[:300])
    except Exception as e:  # noqa
        acc.fail("C11/builder/kwargs-exception", {"kind": "kwargs", "block": clsname, "kwargs": repr(kwargs)}, "built", f"{type(e).__name__}: {str(e)[:200]}")


# ------------------------------------------------------------------------------------------------------------------
# H: histories over one live C2Profile
# ------------------------------------------------------------------------------------------------------------------

EVENTS = (
    ("opt", "sleeptime", "1000"), ("opt", "jitter", "10"), ("opt", "useragent", 'UA "x"'), ("opt", "sleeptime", "2000"),
    ("blk", "http_get", "HttpGetBlock", {"uri": "/a"}), ("blk", "stage", "StageBlock", {"cleanup": "true"}),
    ("blk", "http_get", "HttpGetBlock", {"verb": "POST"}), ("blk", "dns_beacon", "DnsBeaconBlock", {"maxdns": "255"}),
    ("read", "as_dict"), ("read", "properties"), ("read", "as_text"), ("read", "missing"),
    # modifications that add no string token at all: an execute list and a data transform of argument-less steps
    ("raw", "execute"), ("raw", "transform"),
)
BLK_KW = {"http_get": "http-get", "stage": "stage", "dns_beacon": "dns-beacon"}


def apply_event(cp, prof, ev):
    if ev[0] == "opt":
        prof.set_option(ev[1], ev[2])
    elif ev[0] == "blk":
        prof.set_config_block(ev[1], getattr(cp, ev[2])(**ev[3]))
    elif ev[0] == "raw":
        if ev[1] == "execute":
            prof.set_config_block("process_inject", cp.ProcessInjectBlock(execute=cp.ExecuteOptionsBlock(createthread=True, rtlcreateuserthread=True)))
        else:
            prof.set_config_block("http_post", cp.HttpPostBlock(client=cp.HttpOptionsBlock(output=cp.DataTransformBlock(steps=["base64", "mask", "print"]))))
    elif ev[1] == "missing":
        # a caller that subscripts the view with paths the profile does not state: that is a KeyError every time and
        # leaves no trace in the view
        for view in (prof.properties, prof.as_dict()):
            for key in ("http-post.uri", "zz.absent"):
                try:
                    view[key]
                except KeyError:
                    continue
                raise AssertionError(f"the view answers for the absent path {key!r}: {view[key]!r}")
        return None
    elif ev[1] == "as_dict":
        return copy.deepcopy(prof.as_dict())
    elif ev[1] == "properties":
        return copy.deepcopy(prof.properties)
    else:
        return prof.as_text()
    return None


def reference_sentence(cp, hist):
    sent = []
    for ev in hist:
        if ev[0] == "opt":
            sent.append(("s", "option", ("set", ev[1]), (cp.value_to_string(ev[2]),)))
        elif ev[0] == "raw" and ev[1] == "execute":
            ex = {f[1]: f for f in RP.PRODUCTIONS["execute"]}
            body = [mk(ex["createthread"]), mk(ex["rtlcreateuserthread"])]
            sent.append(("b", "process_inject", "process-inject", None, "process_inject", [("b", "execute", "execute", None, "execute", body)]))
        elif ev[0] == "raw":
            g = ([mk(RP.TRANSFORM_STEPS[1]), mk(RP.TRANSFORM_STEPS[3])], mk(RP.TERMINATIONS[2]))
            sent.append(("b", "http_post", "http-post", None, "http_post", [("b", "client", "client", None, "http_client", [("dt", "output", "output", [g])])]))
        elif ev[0] == "blk":
            kind = {"http_get": "http_get", "stage": "stage", "dns_beacon": "dns_beacon"}[ev[1]]
            body = [("s", k, ("set", k), (cp.value_to_string(v),)) for k, v in ev[3].items()]
            sent.append(("b", ev[1], BLK_KW[ev[1]], None, kind, body))
    return sent


def run_history(acc, cp, hist):
    acc.transitions += len(hist)
    case = {"kind": "history", "events": [list(e[:3]) + ([e[3]] if len(e) > 3 else []) for e in hist]}
    try:
        prof = cp.C2Profile()
        observed = []
        for ev in hist:
            observed.append(apply_event(cp, prof, ev))
        final = copy.deepcopy(prof.as_dict())
        final_text = prof.as_text()
    except Exception as e:  # noqa
        acc.case(repr(hist), outcome="exc")
        acc.fail("C11/history/exception", case, "no exception", f"{type(e).__name__}: {str(e)[:200]}")
        return
    sent = reference_sentence(cp, hist)
    fresh = cp.C2Profile.from_text(RP.render(RP.sentence_tokens(sent)))
    want = copy.deepcopy(fresh.as_dict())
    nmod = sum(1 for e in hist if e[0] != "read")
    acc.case(repr(hist), nontrivial=nmod > 0, outcome=repr(sorted(final.items()))[:300])
    if final != want:
        reads_before = any(e[0] == "read" for e in hist[:-1])
        acc.fail("C11/history/stale-or-wrong-dict" + ("/after-read" if reads_before else ""), case, repr(want)[:400], repr(final)[:400])
        return
    why = RP.compare_dict(final, sent)
    if why:
        acc.fail("C11/history/dict-vs-reference-semantics", case, why, repr(final)[:400])
        return
    if RP.tokenize(final_text) != RP.sentence_tokens(sent):
        acc.fail("C11/history/text", case, RP.sentence_tokens(sent), RP.tokenize(final_text))
        return
    # every intermediate read must have reported the modifications made up to that point
    for i, (ev, obs) in enumerate(zip(hist, observed)):
        if ev[0] == "read" and ev[1] not in ("as_text", "missing"):
            pre = reference_sentence(cp, hist[:i])
            w = RP.compare_dict(obs, pre)
            if w:
                acc.fail("C11/history/intermediate-read", dict(case, at=i), w, repr(obs)[:300])
                return


def chunk_hist(chunk, acc):
    from vmc import profile_env

    cp = profile_env.install(True)
    depth = BOUNDS[acc.tier]["hist_depth"]
    first = EVENTS[chunk["first"]]
    for rest in sequences(EVENTS, depth - 1):
        hist = (first,) + rest
        if len(hist) == depth and any(e[0] == "raw" for e in hist):
            continue  # the two token-less modifications are explored one event shorter than the rest
        acc.states += 1
        run_history(acc, cp, hist)
    if chunk["first"] == 0:
        run_history(acc, cp, ())
    acc.sample({"history": [list(first[:3]), ["read", "as_dict"], ["opt", "jitter", "10"], ["read", "properties"]], "invariant": "as_dict() == as_dict(parse(reference rendering))"})


# ---- two live profiles: what one profile reports must not depend on what is done with another one ------------------

TWO_EVENTS = (("A", EVENTS[0]), ("B", EVENTS[1]), ("A", EVENTS[4]), ("B", EVENTS[5]), ("A", EVENTS[8]), ("B", EVENTS[8]), ("B", EVENTS[2]), ("A", EVENTS[10]))


def run_two(acc, cp, hist):
    acc.transitions += len(hist)
    case = {"kind": "two", "events": [[w, list(e[:3]) + ([e[3]] if len(e) > 3 else [])] for w, e in hist]}
    try:
        # both profiles are parsed from the very same text (and a third one later): they are still independent objects
        src = 'set sample_name "S";'
        profs = {"A": cp.C2Profile.from_text(src), "B": cp.C2Profile.from_text(src)}
        per = {"A": [("opt", "sample_name", "S")], "B": [("opt", "sample_name", "S")]}
        for who, ev in hist:
            apply_event(cp, profs[who], ev)
            if ev[0] != "read":
                per[who].append(ev)
        final = {w: copy.deepcopy(profs[w].as_dict()) for w in ("A", "B")}
        again = {w: copy.deepcopy(profs[w].as_dict()) for w in ("B", "A")}
        third = copy.deepcopy(cp.C2Profile.from_text(src).as_dict())
        if third != {"sample_name": ["S"]}:
            acc.case(repr(hist), outcome="third")
            acc.fail("C11/two-profiles/fresh-parse-reports-other-profiles-modifications", case, {"sample_name": ["S"]}, repr(third)[:300])
            return
    except Exception as e:  # noqa
        acc.case(repr(hist), outcome="exc")
        acc.fail("C11/two-profiles/exception", case, "no exception", f"{type(e).__name__}: {str(e)[:200]}")
        return
    acc.case(repr(hist), nontrivial=any(e[0] != "read" for _, e in hist), outcome=repr(sorted(final["A"].items()))[:200])
    for w in ("A", "B"):
        sent = reference_sentence(cp, per[w])
        for label, d in (("first", final[w]), ("after-reading-the-other", again[w])):
            why = RP.compare_dict(d, sent)
            if why:
                acc.fail("C11/two-profiles/one-profile-reports-the-other", dict(case, profile=w, read=label), why, repr(d)[:300])
                return


def chunk_two(chunk, acc):
    from vmc import profile_env

    cp = profile_env.install(True)
    depth = BOUNDS[acc.tier]["hist_depth"]
    first = TWO_EVENTS[chunk["first"]]
    for rest in sequences(TWO_EVENTS, depth - 1):
        acc.states += 1
        run_two(acc, cp, (first,) + rest)
    acc.sample({"two_profiles": [["A", "set sleeptime"], ["B", "read as_dict"], ["A", "read as_dict"]], "oracle": "each profile's dictionary matches its own modifications, before and after the other one is read"})


def chunk_uncached(chunk, acc):
    from vmc import profile_env

    cp = profile_env.install(False)
    try:
        for kind in ("start", "http_client", "execute", "beacon_gate", "stage_transform"):
            for f in RP.PRODUCTIONS[kind][::5]:
                acc.states += 1
                check_sentence(acc, cp, wrap(kind, mk(f)), "uncached")
        for hist in ((EVENTS[0], EVENTS[8], EVENTS[4], EVENTS[9]), (EVENTS[4], EVENTS[10], EVENTS[6], EVENTS[8], EVENTS[3])):
            run_history(acc, cp, hist)
    finally:
        profile_env.install(True)
    acc.sample({"uncached": "subset with the real Reconstructor construction path"})


def run_chunk(chunk, acc):
    globals()["chunk_" + chunk["kind"]](chunk, acc)


def replay(case):
    from vmc import profile_env
    from vmc.runner import Acc

    cp = profile_env.install(False)
    a = Acc("replay", "quick", 0)
    if case["kind"] == "history":
        hist = tuple(tuple(e) for e in case["events"])
        run_history(a, cp, hist)
    elif case["kind"] == "two":
        run_two(a, cp, tuple((w, tuple(e)) for w, e in case["events"]))
    elif case["kind"] == "sentence":
        check_sentence(a, cp, RP.parse_tokens(case["tokens"]), "replay")
    elif case["kind"] == "path":
        chunk_variants({}, a)
    else:
        chunk_kwargs({}, a)
    v = a.violations[0] if a.violations else None
    return {"ok": v is None, "expected": v["expected"] if v else None, "observed": v["observed"] if v else None}
