"""C14 - A parsed beacon configuration is an immutable value (form H with merging + unmerged cross-check)."""

from __future__ import annotations

import hashlib
import random
import struct

from vmc.checks.c06 import ScriptedRandom
from vmc.checks.c19 import Seams
from vmc.kernel import HistoryExplorer, sequences
from vmc.ref import config as RC
from vmc.ref import keys as K
from vmc.ref import tlv

ID = "C14"
LEVEL = "model_checking"
RULE = (
    "state = (which of the four view caches are populated, deep plain-data snapshot of the four views, "
    "settings_tuple and config_block) of ONE BeaconConfig; events = 17 kinds of use (view/property reads, "
    "settings_map variants, C2Http construction with each key variant, client dry run, profile generation, "
    "transform/recover/iter_recover_http with decoders built from it, attempted mutation of each mapping). Merged "
    "pass: every event in every reachable state (complete graph); unmerged pass: every history up to the depth bound. "
    "Oracle: the snapshot equals the initial one in every state, and every event's canonical result equals the result "
    "of the same event on a fresh configuration. non-trivial = every transition (each is a use of the object)"
    '. Added events: transforms without an initial request, default and override dry-runs, a client configured twice, an RSA-only session (check-in recovered twice, then a task), a generated profile that its holder modifies; configurations with index 36 as SHORT and with a duplicated index. '
)
ASSUMPTIONS = [
    "merging is sound because the snapshot covers every attribute of the object and is compared in every state",
    "PKCS#1 padding, mask keys, clock and client randomness are scripted so results are comparable",
]
BOUNDS = {"quick": {"unmerged_depth": 3}, "thorough": {"unmerged_depth": 4}}
# the unmerged histories are explored to the full depth for the two most structured configurations and one event
# shorter for the others (every configuration has its complete merged graph)
FULL_DEPTH_CONFIGS = ("default", "encoders")

CONFIGS = {
    "default": {},
    "deprecated36": {"extra": [(36, 1, b"\x00\x03"), (35, 1, b"\x00\x02")]},
    # the same setting index twice, followed by further settings (the name view collapses the pair, the record list
    # does not), and a second jitter record after everything else
    "duplicates": {"extra": [(29, 3, b"%windir%\\syswow64\\a.exe\x00"), (29, 3, b"%windir%\\syswow64\\b.exe\x00"), (30, 3, b"%windir%\\sysnative\\c.exe\x00"), (43, 1, b"\x00\x40"), (5, 1, b"\x00\x21")]},
    "encoders": {
        "get": [("_HEADER", b"Accept: */*"), ("_PARAMETER", b"k=v"), ("_HOSTHEADER", b"Host: cdn.example"), ("BUILD", 0), ("MASK", None), ("NETBIOS", None), ("PREPEND", b"SESSION="), ("HEADER", b"Cookie")],
        "post": [("_HOSTHEADER", b"Host: cdn.example"), ("BUILD", 0), ("BASE64URL", None), ("PARAMETER", b"id"), ("BUILD", 1), ("MASK", None), ("BASE64", None), ("APPEND", b"--"), ("PRINT", None)],
        "recover": [("PRINT", None), ("APPEND", 10), ("PREPEND", 84), ("BASE64URL", None), ("MASK", None)],
    },
    "https-extra": {
        "protocol": 8, "port": 443,
        "extra": [(29, 3, b"%windir%\\syswow64\\rundll32.exe\x00"), (30, 3, b"%windir%\\sysnative\\rundll32.exe\x00"), (43, 1, b"\x00\x40"), (44, 1, b"\x00\x20"), (45, 2, struct.pack(">I", 4096)),
                  (46, 3, b"\x00\x00\x00\x02\x90\x90\x00\x00\x00\x00".ljust(256, b"\x00")), (51, 3, b"\x01\x03\x04\x00".ljust(128, b"\x00")), (52, 1, b"\x00\x00"), (78, 3, bytes([1, 1] + [0] * 20 + [1]))],
    },
}

EVENTS = (
    "raw_settings", "raw_settings_by_index", "settings", "settings_by_index", "derived", "settings_map",
    "c2http_aesrand", "c2http_rsa", "c2http_aeshmac", "client_dryrun", "profile", "transform_get", "transform_post",
    "response_roundtrip", "iter_recover_http", "mutate", "version", "transform_norequest", "client_dryrun_defaults", "client_rerun", "rsa_session", "client_dryrun_overrides",
)


def plan(tier, seed):
    ch = []
    for name in CONFIGS:
        ch.append({"key": f"merged/{name}", "kind": "merged", "config": name, "cost": 300})
        for first in range(len(EVENTS)):
            ch.append({"key": f"unmerged/{name}/{first}", "kind": "unmerged", "config": name, "first": first, "cost": len(EVENTS) ** (BOUNDS[tier]["unmerged_depth"] - (1 if name in FULL_DEPTH_CONFIGS else 2))})
    return ch


def plain(x):
    if isinstance(x, (bytes, bytearray)):
        return "b:" + bytes(x).hex()
    if isinstance(x, dict) or hasattr(x, "items"):
        return {str(getattr(k, "value", k)): plain(v) for k, v in x.items()}
    if isinstance(x, (list, tuple)):
        return [plain(v) for v in x]
    if hasattr(x, "value") and hasattr(x, "name"):
        return f"enum:{x.value}"
    if isinstance(x, (int, float, str, bool)) or x is None:
        return x
    return repr(x)


def snapshot(cfg):
    return plain(
        {
            "tuple": [(s.index.value, repr(s.index), s.type.value, s.length, bytes(s.value)) for s in cfg.settings_tuple],
            "enum_keys": [repr(k) for k in cfg.settings_map("enum")],
            "block": cfg.config_block,
            "views": [dict(cfg.settings_map("name")), dict(cfg.settings_map("const")), dict(cfg.settings_map("name", pretty=True)), dict(cfg.settings_map("const", pretty=True))],
            "cached": None,
            "attrs": {k: v for k, v in sorted(vars(cfg).items()) if not k.startswith("_") and k not in ("settings_tuple", "config_block")},
        }
    )


def cache_flags(cfg):
    """Shape of the private (cache) attributes, whatever they are called: which are populated, and with how much."""
    out = []
    for k, v in sorted(vars(cfg).items()):
        if k.startswith("_"):
            try:
                out.append((k, None if v is None else len(v)))
            except TypeError:
                out.append((k, type(v).__name__))
    return tuple(out)


def make_cfg(name, seed):
    from dissect.cobaltstrike import beacon

    return beacon.BeaconConfig(RC.http_block(key_which=seed % 2, **CONFIGS[name]))


def tr_plain(t):
    return plain([t.tsteps, t.rsteps])


def do_event(cfg, ev, seed):
    """Apply one use of the configuration; returns its canonical result (or 'EXC ...')."""
    from dissect.cobaltstrike import c2, c2profile
    from dissect.cobaltstrike.client import HttpBeaconClient

    priv = K.key(1024, seed % 2)
    aes_rand = bytes(range(16))
    try:
        if ev in ("raw_settings", "raw_settings_by_index", "settings", "settings_by_index"):
            return plain(dict(getattr(cfg, ev)))
        if ev == "derived":
            return plain([cfg.domain_uri_pairs, cfg.uris, cfg.domains, cfg.submit_uri, cfg.killdate, cfg.protocol, cfg.port, cfg.watermark, cfg.is_trial, cfg.public_key, cfg.sleeptime, cfg.jitter, cfg.setting_enums, cfg.max_setting_enum, repr(cfg)])
        if ev == "version":
            return plain([str(cfg.version), cfg.version.tuple, str(cfg.version.date)])
        if ev == "settings_map":
            return plain([dict(cfg.settings_map(it, pretty=p, parse=q)) for it in ("name", "const", "enum") for p in (False, True) for q in (False, True)])
        if ev.startswith("c2http_"):
            kw = {"c2http_aesrand": {"aes_rand": aes_rand}, "c2http_rsa": {"rsa_private_key": priv}, "c2http_aeshmac": {"aes_key": b"K" * 16, "hmac_key": b"H" * 16}}[ev]
            h = c2.C2Http(cfg, **kw)
            return plain([h.get_uris, h.get_verb, h.submit_uri, h.submit_verb, tr_plain(h.transform_get), tr_plain(h.transform_submit), tr_plain(h.transform_response), h.beacon_keys.aes_key, h.beacon_keys.hmac_key])
        if ev == "client_dryrun":
            with Seams():
                cl = HttpBeaconClient()
                cl.run(cfg, dry_run=True, beacon_id=1234, pid=4242, user="user", computer="PC", process="p.exe", internal_ip="10.0.0.9", arch="x64")
                return plain([cl.task_url, cl.callback_url, cl.get_verb, cl.submit_verb, cl.user_agent, cl.host_header, cl.sleeptime, cl.jitter, cl.metadata.dumps(), cl.base_url, tr_plain(cl.c2http.transform_response)])
        if ev == "client_dryrun_defaults":
            # everything the caller may leave out is left out (names, process, address are then drawn by the client,
            # reproducibly per beacon id)
            out = []
            for bid in (1234, 2, 4, 6, 8, 10, 12, 14):
                with Seams():
                    cl = HttpBeaconClient()
                    cl.run(cfg, dry_run=True, beacon_id=bid)
                    out.append(plain([cl.metadata.dumps(), cl.task_url, cl.user_agent]))
            return out
        if ev == "client_dryrun_overrides":
            # every override the caller can give (host header, user agent, sleep, jitter, domain, port, scheme)
            with Seams():
                cl = HttpBeaconClient()
                cl.run(cfg, dry_run=True, beacon_id=1234, pid=4242, user="user", computer="PC", process="p.exe", internal_ip="10.0.0.9", arch="x64", host_header="front.example", user_agent="UA/1", sleeptime=1234, jitter=7, domain="d.example", port=8443, scheme="https")
                return plain([cl.task_url, cl.callback_url, cl.user_agent, cl.host_header, cl.sleeptime, cl.jitter, tr_plain(cl.c2http.transform_get), tr_plain(cl.c2http.transform_submit)])
        if ev == "client_rerun":
            # one client object configured twice from this configuration (second time with another id) reports the
            # same as a fresh client configured once with that id
            def observe(cl):
                return plain([cl.beacon_id, cl.aes_rand, cl.aes_key, cl.hmac_key, cl.c2http.beacon_keys.aes_key, cl.c2http.beacon_keys.hmac_key, cl.c2http.aes_key, cl.c2http.hmac_key, cl.metadata.dumps(), cl.task_url])

            kw = dict(dry_run=True, pid=4242, user="user", computer="PC", process="p.exe", internal_ip="10.0.0.9", arch="x64")
            with Seams():
                cl = HttpBeaconClient()
                cl.run(cfg, beacon_id=1234, **kw)
                cl.run(cfg, beacon_id=4242, **kw)
                again = observe(cl)
                fresh_cl = HttpBeaconClient()
                fresh_cl.run(cfg, beacon_id=4242, **kw)
                once = observe(fresh_cl)
            return {"second-run-equals-fresh-client": again == once, "fresh": once, "rerun": again if again != once else "same"}
        if ev == "rsa_session":
            # a decoder that holds only the RSA key: decodes a check-in and then the task sent in reply
            m = c2.BeaconMetadata()
            m.magic, m.bid, m.pid, m.aes_rand, m.info = 0xBEEF, 1234, 77, aes_rand, b"PC\tu\tp"
            h = c2.C2Http(cfg, rsa_private_key=priv)
            real = random.getrandbits
            random.getrandbits = lambda k: 0x41424344
            try:
                with ScriptedRandom(7):
                    blob = c2.encrypt_metadata(m, h.pub)
                req = h.transform_get.transform(c2.C2Data(metadata=blob), request=c2.HttpRequest(method=h.get_verb, uri=h.get_uris[0], params={}, headers={}, body=b""))
                out1 = [(type(p).__name__, getattr(p, "bid", None)) for p in h.iter_recover_http(req)]
                out1b = [(type(p).__name__, getattr(p, "bid", None)) for p in h.iter_recover_http(req)]
                if out1b != out1:
                    return {"same-message-recovered-twice": False, "first": plain(out1), "second": plain(out1b)}
                d = hashlib.sha256(aes_rand).digest()
                pkt = c2.encrypt_packet(struct.pack(">IIII", 1, 8, 32, 0), d[:16], d[16:])
                resp = h.transform_response.transform(c2.C2Data(output=pkt.ciphertext + pkt.signature))
                out2 = [(p.command.value, p.epoch) for p in h.iter_recover_http(c2.HttpResponse(status=200, headers={}, reason=b"OK", body=resp.body))]
                return plain([out1, out2, h.beacon_keys.aes_key, h.beacon_keys.hmac_key])
            finally:
                random.getrandbits = real
        if ev == "profile":
            prof = c2profile.C2Profile.from_beacon_config(cfg)
            text = prof.as_text()
            # the caller owns the generated profile: it customises it afterwards
            prof.set_option("sleeptime", "31337")
            prof.set_config_block("http_get", c2profile.HttpGetBlock(uri="/customised"))
            for v in prof.properties.values():
                if isinstance(v, list) and v:
                    v.pop()
            return text
        if ev in ("transform_get", "transform_post", "response_roundtrip", "iter_recover_http"):
            h = c2.C2Http(cfg, aes_rand=aes_rand, rsa_private_key=priv)
            real = random.getrandbits
            random.getrandbits = lambda k: 0x41424344
            try:
                if ev == "transform_get":
                    req = h.transform_get.transform(c2.C2Data(metadata=b"M" * 24), request=c2.HttpRequest(method=b"GET", uri=b"/ptj", params={}, headers={b"Host": b"h"}, body=b""))
                    rec = h.transform_get.recover(req, base_uri=b"/ptj")
                    return plain([req.uri, req.params, req.headers, req.body, rec.metadata, rec.id, rec.output])
                if ev == "transform_post":
                    req = h.transform_submit.transform(c2.ClientC2Data(id=b"1234", output=b"O" * 40), request=c2.HttpRequest(method=b"POST", uri=b"/submit.php", params={}, headers={}, body=b""))
                    rec = h.transform_submit.recover(req, base_uri=b"/submit.php")
                    return plain([req.uri, req.params, req.headers, req.body, rec.metadata, rec.id, rec.output])
                if ev == "response_roundtrip":
                    pkt = c2.encrypt_packet(struct.pack(">IIII", 1, 8, 32, 0), **h.beacon_keys._asdict())
                    resp = h.transform_response.transform(c2.C2Data(output=pkt.ciphertext + pkt.signature))
                    out = list(h.iter_recover_http(c2.HttpResponse(status=200, headers={}, reason=b"OK", body=resp.body)))
                    return plain([resp.body, [(p.command.value, p.epoch, bytes(p.data)) for p in out]])
                m = c2.BeaconMetadata()
                m.magic, m.bid, m.pid, m.aes_rand, m.info = 0xBEEF, 1234, 77, aes_rand, b"PC\tu\tp"
                with ScriptedRandom(7):
                    blob = c2.encrypt_metadata(m, h.pub)
                req = h.transform_get.transform(c2.C2Data(metadata=blob), request=c2.HttpRequest(method=h.get_verb, uri=h.get_uris[0], params={}, headers={}, body=b""))
                out = list(h.iter_recover_http(req))
                return plain([[(type(p).__name__, getattr(p, "bid", None), bytes(getattr(p, "info", b""))) for p in out], sorted(k.hex()[:16] for k in h.metadata_cache)])
            finally:
                random.getrandbits = real
        if ev == "transform_norequest":
            h = c2.C2Http(cfg, aes_rand=aes_rand)
            real = random.getrandbits
            random.getrandbits = lambda k: 0x41424344
            try:
                r1 = h.transform_get.transform(c2.C2Data(metadata=b"M" * 8))
                snap1 = plain([r1.uri, r1.params, r1.headers, r1.body])
                r2 = h.transform_submit.transform(c2.ClientC2Data(id=b"77", output=b"O" * 8))
                snap2 = plain([r2.uri, r2.params, r2.headers, r2.body])
                r3 = h.transform_response.transform(c2.C2Data(output=b"T" * 16))
                return [snap1, snap2, plain([r3.uri, r3.params, r3.headers, r3.body]), plain([r1.uri, r1.params, r1.headers, r1.body]) == snap1]
            finally:
                random.getrandbits = real
        if ev == "mutate":
            res = []
            for view in (cfg.raw_settings, cfg.raw_settings_by_index, cfg.settings, cfg.settings_by_index, cfg.settings_map("enum")):
                k = next(iter(view))
                for op in ("set", "del", "clear", "update", "ior", "pop", "popitem", "setdefault"):
                    try:
                        if op == "set":
                            view[k] = 1
                        elif op == "del":
                            del view[k]
                        elif op == "clear":
                            view.clear()
                        elif op == "update":
                            view.update({k: 2})
                        elif op == "ior":
                            view |= {k: 3}
                        elif op == "pop":
                            view.pop(k)
                        elif op == "popitem":
                            view.popitem()
                        else:
                            view.setdefault("new-key", 4)
                        res.append("ACCEPTED")
                    except (TypeError, AttributeError) as e:
                        res.append(type(e).__name__)
            return res
        raise ValueError(ev)
    except Exception as e:  # noqa
        return f"EXC {type(e).__name__}: {e}"


_fresh_cache = {}


def fresh_result(name, ev, seed):
    k = (name, ev, seed)
    if k not in _fresh_cache:
        _fresh_cache[k] = do_event(make_cfg(name, seed), ev, seed)
    return _fresh_cache[k]


def judge(name, hist, seed, initial):
    """Replay `hist` on a fresh config; check the last event's result and the invariant. -> (bad|None, cfg)"""
    cfg = make_cfg(name, seed)
    res = None
    for ev in hist:
        res = do_event(cfg, ev, seed)
    if hist:
        ev = hist[-1]
        want = fresh_result(name, ev, seed)
        if isinstance(res, str) and res.startswith("EXC"):
            if res != want:
                return ("C14/event-raises-after-history/" + ev, want if isinstance(want, str) else "result", res), cfg
        elif res != want:
            return ("C14/result-depends-on-history/" + ev, _short(want), _short(res)), cfg
        if ev == "mutate" and "ACCEPTED" in res:
            return ("C14/mapping-accepts-mutation", "TypeError", res), cfg
        if ev == "rsa_session" and isinstance(res, dict) and res.get("same-message-recovered-twice") is False:
            return ("C14/result-depends-on-history/rsa_session/same-message-twice", _short(res["first"]), _short(res["second"])), cfg
        if ev == "client_rerun" and isinstance(res, dict) and not res["second-run-equals-fresh-client"]:
            return ("C14/result-depends-on-history/client_rerun", _short(res["fresh"]), _short(res["rerun"])), cfg
    snap = snapshot(cfg)
    snap["cached"] = None
    if snap != initial:
        diff = [k for k in initial if initial[k] != snap[k]]
        det = ""
        if "views" in diff:
            for a, b in zip(initial["views"], snap["views"]):
                for kk in a:
                    if a.get(kk) != b.get(kk):
                        det = kk
        return ("C14/configuration-changed/" + "+".join(diff) + (f"/{det}" if det else ""), _short({k: initial[k] for k in diff}), _short({k: snap[k] for k in diff})), cfg
    return None, cfg


def _short(x):
    r = repr(x)
    return r if len(r) < 500 else r[:500] + "..."


def initial_snapshot(name, seed):
    s = snapshot(make_cfg(name, seed))
    s["cached"] = None
    return s


def chunk_merged(chunk, acc):
    name = chunk["config"]
    init = initial_snapshot(name, acc.seed)
    # sanity: a fresh configuration handles every event without raising
    for ev in EVENTS:
        r = fresh_result(name, ev, acc.seed)
        if isinstance(r, str) and r.startswith("EXC") and ev != "mutate":
            acc.fail("C14/event-fails-on-fresh-config/" + ev, {"kind": "history", "config": name, "history": [ev], "seed": acc.seed}, "result", r)
    seen = {}
    frontier = [()]
    seen[cache_flags(make_cfg(name, acc.seed))] = ()
    while frontier:
        nxt = []
        for hist in frontier:
            acc.states += 1
            for ev in EVENTS:
                h2 = hist + (ev,)
                acc.transitions += 1
                bad, cfg = judge(name, h2, acc.seed, init)
                acc.case((name, h2), outcome=(ev, bad[0] if bad else cache_flags(cfg)))
                if bad:
                    acc.fail(bad[0], {"kind": "history", "config": name, "history": list(h2), "seed": acc.seed}, bad[1], bad[2])
                    continue
                k = cache_flags(cfg)
                if k not in seen:
                    seen[k] = h2
                    nxt.append(h2)
        frontier = nxt
    acc.sample({"config": name, "reachable_cache_states": [list(k) for k in seen], "events": list(EVENTS)})


def chunk_unmerged(chunk, acc):
    name = chunk["config"]
    depth = BOUNDS[acc.tier]["unmerged_depth"] - (0 if name in FULL_DEPTH_CONFIGS else 1)
    init = initial_snapshot(name, acc.seed)
    first = EVENTS[chunk["first"]]
    for rest in sequences(EVENTS, depth - 1, 1):
        hist = (first,) + rest
        acc.states += 1
        acc.transitions += len(hist)
        bad, cfg = judge(name, hist, acc.seed, init)
        acc.case((name, hist), outcome=bad[0] if bad else hist[-1])
        if bad:
            acc.fail(bad[0], {"kind": "history", "config": name, "history": list(hist), "seed": acc.seed}, bad[1], bad[2])
    acc.sample({"config": name, "history": [first, "c2http_rsa", "settings"], "oracle": "snapshot unchanged; last result equals the result on a fresh configuration"})


def run_chunk(chunk, acc):
    from vmc import profile_env

    profile_env.install(True)
    {"merged": chunk_merged, "unmerged": chunk_unmerged}[chunk["kind"]](chunk, acc)


def replay(case):
    init = initial_snapshot(case["config"], case["seed"])
    bad, _ = judge(case["config"], tuple(case["history"]), case["seed"], init)
    return {"ok": bad is None, "expected": bad[1] if bad else None, "observed": {"signature": bad[0], "value": bad[2]} if bad else None}
