"""C02 - Settings are decoded exactly and all views agree (form G over setting sequences; BeaconConfig(block))."""

from __future__ import annotations

import itertools

from vmc.kernel import sequences
from vmc.ref import tlv
from vmc.runner import lcg

ID = "C02"
LEVEL = "model_checking"
RULE = (
    "construction automaton: append one setting record (atom) to the block, then one of six endings; every sequence "
    "up to the depth bound is encoded by the reference TLV encoder, decoded by BeaconConfig(block) and compared "
    "record-for-record (index, type, length, value) and view-for-view (name/const/enum x raw/pretty x parse) with the "
    "reference mapping semantics. non-trivial = at least one record is expected to be decoded"
    '. Added: the enum-indexed view is compared entry for entry with the name-indexed view; records of one index with two values / types; User-Agent records longer than the field. '
)
ASSUMPTIONS = [
    "a SHORT/INT record whose length is not 2/4 exposes the big-endian integer of its first 2/4 bytes",
    "an over-long User-Agent is followed by a record with index < 256, a terminator or zero padding (its NUL)",
    "duplicate indices follow plain mapping semantics: position of the first occurrence, value of the last",
    "aliased indices (16, 17, 48) may be named by either of their two enum names",
]
BOUNDS = {"quick": {"depth_full": 3, "depth_core": 4}, "thorough": {"depth_full": 3, "depth_core": 5}}

# indices that have a pretty-printer (their human-readable values are the subject of C03, not of this check)
HAS_PRETTY = {7, 8, 9, 10, 11, 12, 13, 14, 15, 16, 19, 26, 27, 29, 30, 36, 42, 46, 47, 51, 53, 54, 57, 58, 60, 61, 62, 63, 64, 65, 66, 74, 78}

UA128 = bytes((0x41 + (i % 26)) for i in range(128))


def atoms(seed):
    big = bytes(lcg(300, seed + 3))
    A = [
        ("proto0", 1, 1, b"\x00\x00"),
        ("proto8", 1, 1, b"\x00\x08"),
        ("portffff", 2, 1, b"\xff\xff"),
        ("port8000", 2, 1, b"\x80\x00"),
        ("sleep1", 3, 2, b"\x00\x00\x00\x01"),
        ("wm0", 37, 2, b"\x00\x00\x00\x00"),
        ("wm80", 37, 2, b"\x80\x00\x00\x00"),
        ("wmff", 37, 2, b"\xff\xff\xff\xff"),
        ("ua-short", 9, 3, b"UA\x00\x00"),
        ("ua-128pad", 9, 3, b"Mozilla/5.0".ljust(128, b"\x00")),
        ("ua-over0", 9, 3, UA128, b""),
        ("ua-over1", 9, 3, UA128, b"!"),
        ("ua-over40", 9, 3, UA128, b"0123456789" * 4),
        # User-Agent records longer than the 128-byte field: nothing special about them (no continuation)
        ("ua-256full", 9, 3, bytes((0x61 + (i % 26)) for i in range(256))),
        ("ua-200", 9, 3, bytes((0x61 + (i % 26)) for i in range(200))),
        ("bof2", 16, 1, b"\x00\x02"),
        ("bof-2021", 16, 1, b"\x07\xe5"),  # same index, a value outside the allocator range: still the same setting
        ("sysc", 17, 1, b"\x00\x0c"),
        ("reuse", 48, 1, b"\x00\x01"),
        ("inj36short", 36, 1, b"\x00\x03"),
        ("wmh36ptr", 36, 3, b"h\x00"),
        ("wmh36int", 36, 2, b"\x00\x00\x00\x05"),
        ("wmh36none", 36, 0, b""),
        ("gap75", 75, 3, b"abc"),
        ("none79", 79, 0, b""),
        ("ptr255e", 255, 3, b""),
        ("ptr256", 256, 3, b"\x00\xff\x00"),
        ("int7fff", 0x7FFF, 2, b"\x00\x00\x00\x01"),
        ("noneffff", 0xFFFF, 0, b""),
        ("sshhost5", 21, 3, b"\x01\x02\x00\x04\xff"),
        ("sshkey128", 25, 3, bytes(lcg(128, seed + 4))),
        ("proxy300", 32, 3, big),
        ("proxyuser-e", 33, 3, b""),
        ("short-len4", 5, 1, b"\x01\x02\x03\x04"),
        ("int-len2", 4, 2, b"\x01\x02"),
        ("none-len2", 20, 0, b"xy"),
        ("short-len1", 6, 1, b"\x07"),
        ("sshuser1", 23, 3, b"\x00"),
        ("dup-proto", 1, 1, b"\x00\x01"),
        ("ptr-zeros", 34, 3, b"\x00\x00\x00\x00"),
        ("kd-day", 18, 1, b"\x00\x1f"),
    ]
    return A


CORE = ("proto8", "wmff", "ua-short", "ua-over1", "inj36short", "wmh36ptr", "wmh36int", "gap75", "noneffff", "dup-proto", "bof2", "bof-2021", "ptr256", "short-len4", "ua-256full")
ENDINGS = ("eof", "term", "term+garbage", "pad4096", "lone-byte", "trunc-record", "trunc-hdr4", "trunc-hdr5", "trunc-val-1", "trunc-val-2")


def plan(tier, seed):
    names = [a[0] for a in atoms(seed)]
    ch = [{"key": "empty", "kind": "seqs", "first": None, "cost": 1}]
    for n in names:
        ch.append({"key": f"full/{n}", "kind": "seqs", "first": n, "mode": "full", "cost": len(names) ** (BOUNDS[tier]["depth_full"] - 1)})
    for n in CORE:
        ch.append({"key": f"core/{n}", "kind": "seqs", "first": n, "mode": "core", "cost": len(CORE) ** (BOUNDS[tier]["depth_core"] - 1)})
    ch.append({"key": "biglen", "kind": "biglen", "cost": 5})
    return ch


def encode_seq(seq, ending, seed):
    """Returns (block bytes, expected list of (index, type, length, value)) or None if the combination is outside
    the domain (over-long UA not followed by its NUL)."""
    out = b""
    exp = []
    for k, a in enumerate(seq):
        name, idx, typ, val = a[0], a[1], a[2], a[3]
        if len(a) == 5:  # over-long UA: 128 bytes in the record, continuation after it
            cont = a[4]
            nxt_ok = (k + 1 < len(seq) and seq[k + 1][1] < 256) or (k + 1 == len(seq) and ending in ("term", "term+garbage", "pad4096"))
            if not nxt_ok:
                return None
            out += tlv.rec(idx, typ, val) + cont
            exp.append((idx, typ, len(val), val + cont))
        else:
            out += tlv.rec(idx, typ, val)
            exp.append((idx, typ, len(val), val))
    if ending == "eof":
        pass
    elif ending == "term":
        out += b"\x00\x00"
    elif ending == "term+garbage":
        out += b"\x00\x00" + tlv.rec(2, 1, b"\x12\x34") + bytes(lcg(9, seed))
    elif ending == "pad4096":
        out = out.ljust(4096, b"\x00") if len(out) < 4094 else out + b"\x00\x00"
    elif ending == "lone-byte":
        out += b"\x07"
    elif ending == "trunc-record":
        out += tlv.rec(2, 3, b"abc", length=10)
    elif ending in ("trunc-hdr4", "trunc-hdr5"):
        # the data ends inside the 6-byte header of one more record (after the type field)
        out += tlv.rec(2, 1, b"\x01\xbb")[: int(ending[-1])]
    elif ending in ("trunc-val-1", "trunc-val-2"):
        # the data ends 1 / 2 bytes before the end of one more record's value
        out += tlv.rec(3, 2, b"\x00\x00\xea\x60")[: -int(ending[-1])]
    return out, exp


def expected_views(exp):
    raw_by_index = {}
    for i, t, ln, v in exp:
        raw_by_index[i] = tlv.value_of(t, v)
    return raw_by_index


def check_config(block, exp):
    """Run the implementation on `block` and compare with `exp`. Returns (signature, expected, observed) or None."""
    from dissect.cobaltstrike import beacon

    try:
        bc = beacon.BeaconConfig(block)
        got = [(s.index.value, s.type.value, s.length, bytes(s.value)) for s in bc.settings_tuple]
    except Exception as e:  # noqa
        return "C02/decode/exception", "settings", f"{type(e).__name__}: {e}"
    if got != exp:
        ua = any(i == 9 and ln == 0x80 and len(v) > 0x80 for i, t, ln, v in exp)
        return ("C02/decode/records" + ("/overlong-useragent" if ua else "")), _j(exp), _j(got)
    if not exp:
        try:
            if bc.setting_enums != []:
                return "C02/views/setting_enums", [], bc.setting_enums
        except Exception as e:  # noqa
            return "C02/views/exception", "[]", f"{type(e).__name__}: {e}"
        return None
    try:
        enums = bc.setting_enums
        mx = bc.max_setting_enum
        raw_name = bc.raw_settings
        raw_idx = bc.raw_settings_by_index
        p_name = bc.settings
        p_idx = bc.settings_by_index
        maps = {}
        for it in ("name", "const", "enum"):
            for pretty in (False, True):
                for parse in (False, True):
                    maps[(it, pretty, parse)] = bc.settings_map(index_type=it, pretty=pretty, parse=parse)
    except Exception as e:  # noqa
        return "C02/views/exception", "views", f"{type(e).__name__}: {e}"
    if enums != [i for i, _, _, _ in exp] or mx != max(i for i, _, _, _ in exp):
        return "C02/views/setting_enums", [i for i, _, _, _ in exp], {"enums": enums, "max": mx}
    # ---- const view
    want = {}
    for i, t, ln, v in exp:
        want[i] = tlv.value_of(t, v)
    if list(raw_idx.items()) != list(want.items()):
        return "C02/views/raw-by-index", _jv(want), _jv(dict(raw_idx))
    # ---- name view: keys are acceptable names, in first-occurrence order, last value wins per name
    want_names = {}
    for i, t, ln, v in exp:
        key = next((k for k in tlv.acceptable_names(i, t) if k in raw_name), None)
        if key is None:
            return "C02/views/name-missing", list(tlv.acceptable_names(i, t)), list(raw_name)
        want_names[key] = tlv.value_of(t, v)
    if list(raw_name.items()) != list(want_names.items()):
        return "C02/views/raw-by-name", _jv(want_names), _jv(dict(raw_name))
    for i, t, ln, v in exp:
        if i not in tlv.NAMES and i not in tlv.ALIASES and i != 36:
            if f"BeaconSetting_{i}" not in raw_name:
                return "C02/views/synthetic-name", f"BeaconSetting_{i}", list(raw_name)
    # ---- pretty views: same keys/order; equal values where there is no pretty-printer
    PRETTY = HAS_PRETTY
    if list(p_idx) != list(raw_idx) or list(p_name) != list(raw_name):
        return "C02/views/pretty-keys", {"idx": list(raw_idx), "name": list(raw_name)}, {"idx": list(p_idx), "name": list(p_name)}
    for k in raw_idx:
        if k not in PRETTY and p_idx[k] != raw_idx[k]:
            return "C02/views/pretty-value", {k: _v(raw_idx[k])}, {k: _v(p_idx[k])}
    name_to_idx = {}
    for i, t, ln, v in exp:
        for k in tlv.acceptable_names(i, t):
            name_to_idx[k] = i
    for k in raw_name:
        if name_to_idx.get(k) not in PRETTY and p_name[k] != raw_name[k]:
            return "C02/views/pretty-value", {k: _v(raw_name[k])}, {k: _v(p_name[k])}
    # ---- settings_map variants agree with the cached views
    for (it, pretty, parse), m in maps.items():
        keys = [getattr(k, "value", k) if it == "enum" else k for k in m]
        if it == "const":
            ref = p_idx if pretty else raw_idx
            if list(m) != list(ref):
                return "C02/views/settings_map-keys", list(ref), list(m)
        elif it == "name":
            ref = p_name if pretty else raw_name
            if list(m) != list(ref):
                return "C02/views/settings_map-keys", list(ref), list(m)
        else:
            ref = p_idx if pretty else raw_idx
            dedup = list(dict.fromkeys(keys))
            if dedup != list(raw_idx):
                return "C02/views/settings_map-keys", list(raw_idx), keys
            # the enum-indexed view describes the same settings as the name-indexed view: entry for entry the
            # key's enum name (synthetic name for unknown indices) is the name-view key (or its alias) and the
            # values are equal
            nm = maps[("name", pretty, parse)]
            if len(m) != len(nm):
                return "C02/views/enum-vs-name", [str(k) for k in nm], [repr(k) for k in m]
            for (ek, ev), (nk, nv) in zip(m.items(), nm.items()):
                ename = getattr(ek, "name", None) or f"BeaconSetting_{getattr(ek, 'value', ek)}"
                same = ename == nk or any(ename in acc and nk in acc for acc in (tlv.acceptable_names(getattr(ek, "value", ek), t) for t in (0, 1, 2, 3)))
                if not same or ev != nv:
                    return "C02/views/enum-vs-name", {str(nk): _v(nv)}, {repr(ek): _v(ev), "variant": [pretty, parse]}
            continue
        for k in m:
            a, b = m[k], ref[k]
            if parse or pretty:
                if a != b:
                    return "C02/views/settings_map-values", {str(k): _v(b)}, {str(k): _v(a), "variant": [it, pretty, parse]}
            else:
                # unparsed: raw bytes as serialized
                i = k if it == "const" else name_to_idx[k]
                last = [v for (ii, t, ln, v) in exp if ii == i and (it == "const" or k in tlv.acceptable_names(ii, t))][-1]
                if a != last:
                    return "C02/views/settings_map-unparsed", _v(last), _v(a)
    # ---- read-only
    for label, m, key in (("raw_settings", raw_name, next(iter(raw_name))), ("raw_settings_by_index", raw_idx, next(iter(raw_idx))), ("settings", p_name, next(iter(p_name))), ("settings_by_index", p_idx, next(iter(p_idx)))):
        for op in ("set", "del"):
            try:
                if op == "set":
                    m[key] = 1
                else:
                    del m[key]
                return "C02/views/mutable", "TypeError", f"{label} accepted item {op}"
            except TypeError:
                pass
    # ---- repeated access returns equal content
    if dict(bc.raw_settings) != dict(raw_name) or dict(bc.settings_by_index) != dict(p_idx) or [(s.index.value, bytes(s.value)) for s in bc.settings_tuple] != [(i, v) for i, t, ln, v in exp]:
        return "C02/views/unstable", "same content", "content changed between accesses"
    return None


def _v(x):
    return x.hex() if isinstance(x, (bytes, bytearray)) else x


def _j(recs):
    return [[i, t, ln, v.hex() if len(v) <= 64 else v[:32].hex() + f"..({len(v)})"] for i, t, ln, v in recs]


def _jv(d):
    return {str(k): (_v(v) if not isinstance(v, (bytes, bytearray)) or len(v) <= 64 else v[:32].hex() + "..") for k, v in d.items()}


def chunk_seqs(chunk, acc):
    A = {a[0]: a for a in atoms(acc.seed)}
    b = BOUNDS[acc.tier]
    if chunk["first"] is None:
        seqs = [()]
    elif chunk["mode"] == "full":
        rest = list(A.values())
        seqs = [(A[chunk["first"]],) + r for r in sequences(rest, b["depth_full"] - 1)]
    else:
        rest = [A[n] for n in CORE]
        # only the sequences longer than depth_full (shorter ones are covered by the full pass)
        seqs = [(A[chunk["first"]],) + r for r in sequences(rest, b["depth_core"] - 1, b["depth_full"])]
    for seq in seqs:
        acc.states += 1
        for ending in ENDINGS if len(seq) <= 2 else ENDINGS[:6]:
            enc = encode_seq(seq, ending, acc.seed)
            if enc is None:
                continue
            block, exp = enc
            acc.transitions += 1
            bad = check_config(block, exp)
            names = tuple(a[0] for a in seq)
            acc.case((names, ending), nontrivial=bool(exp), outcome=(len(exp), ending, bad[0] if bad else None))
            if bad:
                acc.fail(bad[0], {"kind": "seq", "atoms": list(names), "ending": ending, "seed": acc.seed}, bad[1], bad[2])
    if seqs and seqs[-1]:
        acc.sample({"atoms": [a[0] for a in seqs[-1]], "endings": list(ENDINGS), "records": _j([(a[1], a[2], len(a[3]), a[3]) for a in seqs[-1]])})


def chunk_biglen(chunk, acc):
    """Record lengths up to 65535 inside the block."""
    for ln in (4000, 4090, 65535):
        for idx, typ in ((32, 3), (300, 3), (14, 0)):
            val = bytes(lcg(ln, acc.seed + ln))
            exp = [(1, 1, 2, b"\x00\x08"), (idx, typ, ln, val), (37, 2, 4, b"\x00\x00\x00\x09")]
            block = tlv.encode([(i, t, v) for i, t, l, v in exp])
            acc.states += 1
            acc.transitions += 1
            bad = check_config(block, exp)
            acc.case((ln, idx, typ), outcome=bad[0] if bad else "ok")
            if bad:
                acc.fail(bad[0] + "/biglen", {"kind": "biglen", "len": ln, "index": idx, "type": typ, "seed": acc.seed}, None, bad[2] if isinstance(bad[2], str) else "mismatch")
    acc.sample({"record_length": 65535})


def run_chunk(chunk, acc):
    {"seqs": chunk_seqs, "biglen": chunk_biglen}[chunk["kind"]](chunk, acc)


def replay(case):
    if case["kind"] == "seq":
        A = {a[0]: a for a in atoms(case["seed"])}
        block, exp = encode_seq(tuple(A[n] for n in case["atoms"]), case["ending"], case["seed"])
        bad = check_config(block, exp)
        return {"ok": bad is None, "expected": bad[1] if bad else None, "observed": {"block": block.hex()[:400], "result": bad[2]} if bad else None}
    if case["kind"] == "biglen":
        ln, idx, typ = case["len"], case["index"], case["type"]
        val = bytes(lcg(ln, case["seed"] + ln))
        exp = [(1, 1, 2, b"\x00\x08"), (idx, typ, ln, val), (37, 2, 4, b"\x00\x00\x00\x09")]
        bad = check_config(tlv.encode([(i, t, v) for i, t, l, v in exp]), exp)
        return {"ok": bad is None, "expected": None, "observed": bad[0] if bad else None}
    raise ValueError(case["kind"])
