"""C05 - Packet encryption round-trips and is authenticated before decryption (forms G + D)."""

from __future__ import annotations

import struct

import itertools

from vmc.kernel import deviation_sets, sequences
from vmc.ref import aes as R
from vmc.runner import lcg

ID = "C05"
LEVEL = "model_checking"
RULE = (
    "G: every plaintext length of the bound x every key/IV role of the structured family is encrypted by the library "
    "and compared with the pure-Python AES-128-CBC + HMAC reference, then decrypted. D: starting from valid packets "
    "every set of <= k deviations (single-bit flips and truncations of ciphertext and signature, single-bit flips of "
    "the HMAC key, missing key) is enumerated; each must raise ValueError with decrypt_data never entered. Framing: "
    "every sequence of 1..3 packets over the length family. non-trivial = plaintext non-empty or a fault was injected"
    '. Added: plaintexts of 4-12 KiB (70 KB thorough), every prefix / bit flip of a framed task stream through framing + verification, the traffic decoder on 1-3 packet messages with each packet changed or cut, repeated identical packets. '
)
ASSUMPTIONS = [
    "the 2^128 key space is represented by a structured family (all-zero, all-ff, single-bit, ramp, LCG keys)",
    "hashlib's HMAC-SHA256 and the FIPS-197 reference AES are the ground truth",
]
BOUNDS = {"quick": {"lens": list(range(0, 97)) + [1000], "k": 2, "fault_sizes": (0, 17, 40)}, "thorough": {"lens": list(range(0, 161)) + [1000, 4096], "k": 2, "fault_sizes": (0, 1, 15, 16, 17, 31, 32, 33, 40, 63, 64)}}

DEFAULT_IV = b"abcdefghijklmnop"
LARGE = {"quick": (4079, 4080, 4095, 4096, 4097, 8191, 8192, 8193, 12345), "thorough": (4079, 4080, 4095, 4096, 4097, 8191, 8192, 8193, 12345, 16384, 32768, 65536, 70001)}


def key_family(seed):
    fam = [("zero", b"\x00" * 16), ("ff", b"\xff" * 16), ("ramp", bytes(range(16))), ("lcg", bytes(lcg(16, seed + 1)))]
    fam += [(f"bit{b}", (1 << (b * 8 + b % 8)).to_bytes(16, "big")) for b in range(16)]
    return fam


def plan(tier, seed):
    ch = []
    for name, _ in key_family(seed):
        ch.append({"key": f"roundtrip/{name}", "kind": "roundtrip", "keyname": name, "cost": 120})
    # plaintexts of several KiB (buffer / slice boundaries inside the cipher code), one packet length per chunk
    for ln in LARGE[tier]:
        ch.append({"key": f"roundtrip/large/{ln}", "kind": "roundtrip", "keyname": "lcg", "lens": [ln], "cost": 200 + ln // 10})
    ch.append({"key": "decoder/multi-packet-faults", "kind": "decoder_faults", "cost": 800})
    for size in BOUNDS[tier]["fault_sizes"]:
        ch.append({"key": f"faults/ct/{size}", "kind": "faults", "size": size, "target": "ct", "cost": 400 + size * 10})
        ch.append({"key": f"faults/sig/{size}", "kind": "faults", "size": size, "target": "sig", "cost": 300})
        ch.append({"key": f"faults/key/{size}", "kind": "faults", "size": size, "target": "key", "cost": 300})
        if BOUNDS[tier]["k"] >= 2:
            for part in range(8):
                ch.append({"key": f"faults2/{size}/{part}", "kind": "faults2", "size": size, "part": part, "cost": 3000})
    ch.append({"key": "framing/client", "kind": "framing_client", "cost": 300})
    ch.append({"key": "framing/server", "kind": "framing_server", "cost": 50})
    return ch


def call(f, *a, **k):
    try:
        return f(*a, **k)
    except Exception as e:  # noqa
        return f"EXC {type(e).__name__}: {e}"


def chunk_roundtrip(chunk, acc):
    from dissect.cobaltstrike import c2

    fam = dict(key_family(acc.seed))
    key = fam[chunk["keyname"]]
    hkeys = [bytes(lcg(16, acc.seed + 7)), key, b"\x00" * 16]
    ivs = [DEFAULT_IV, key, b"\x00" * 16]
    for ln in chunk.get("lens") or BOUNDS[acc.tier]["lens"]:
        pt = bytes(lcg(ln, acc.seed + ln))
        acc.states += 1
        for hk in hkeys[: 3 if ln < 20 else 1]:
            for iv in ivs[: 3 if ln < 20 else 1]:
                acc.transitions += 1
                case = {"kind": "roundtrip", "plain": pt.hex(), "aes_key": key.hex(), "hmac_key": hk.hex(), "iv": iv.hex()}
                pkt = call(c2.encrypt_packet, pt, key, hk, iv) if iv != DEFAULT_IV else call(c2.encrypt_packet, pt, key, hk)
                ect, esig = R.encrypt_packet(pt, key, hk, iv)
                acc.case((ln, hk, iv), nontrivial=ln > 0, outcome=(len(ect), ect[:4]))
                if isinstance(pkt, str) or (bytes(pkt.ciphertext), bytes(pkt.signature)) != (ect, esig):
                    sig = "C05/encrypt/ciphertext" if isinstance(pkt, str) or bytes(pkt.ciphertext) != ect else "C05/encrypt/signature"
                    acc.fail(sig, case, {"ct": ect.hex()[:96], "sig": esig.hex()}, pkt if isinstance(pkt, str) else {"ct": bytes(pkt.ciphertext).hex()[:96], "sig": bytes(pkt.signature).hex()})
                    continue
                dec = call(c2.decrypt_packet, pkt, key, hk, iv) if iv != DEFAULT_IV else call(c2.decrypt_packet, pkt, key, hk)
                pad = dec[len(pt) :] if isinstance(dec, bytes) else None
                if not isinstance(dec, bytes) or dec[: len(pt)] != pt or not (1 <= len(pad) <= 16) or set(pad) != {0x41} or len(dec) % 16:
                    acc.fail("C05/decrypt/roundtrip", case, (pt + b"A" * (16 - ln % 16)).hex()[:120], dec.hex()[:120] if isinstance(dec, bytes) else dec)
                    continue
                # decrypt of a reference-made packet, and without verification / hmac key
                d2 = call(c2.decrypt_packet, c2.EncryptedPacket(ect, esig), key, None, iv, False)
                if d2 != dec:
                    acc.fail("C05/decrypt/no-verify", case, dec.hex()[:120], d2.hex()[:120] if isinstance(d2, bytes) else d2)
                # the same through BeaconKeys built by every constructor with this IV (the client encrypts that way)
                for label, bk in (("direct", call(c2.BeaconKeys, key, hk, iv)), ("from_aes_rand", call(c2.BeaconKeys.from_aes_rand, key, iv) if iv != DEFAULT_IV else call(c2.BeaconKeys.from_aes_rand, key))):
                    if isinstance(bk, str):
                        acc.fail("C05/keys/constructor-exception", case, "BeaconKeys", bk)
                        continue
                    k2, h2 = (key, hk) if label == "direct" else R.derive_keys(key)
                    p2 = call(lambda: c2.encrypt_packet(pt, **bk._asdict()))
                    e2 = R.encrypt_packet(pt, k2, h2, iv)
                    if isinstance(p2, str) or (bytes(p2.ciphertext), bytes(p2.signature)) != e2:
                        acc.fail("C05/keys/packet-not-under-configured-iv/" + label, case, {"ct": e2[0].hex()[:64], "iv": iv.hex()}, p2 if isinstance(p2, str) else {"ct": bytes(p2.ciphertext).hex()[:64], "keys_iv": bytes(bk.iv).hex()})
                if R.cbc_decrypt(key, iv, bytes(pkt.ciphertext)) != dec:
                    acc.fail("C05/decrypt/reference-disagrees", case, R.cbc_decrypt(key, iv, bytes(pkt.ciphertext)).hex()[:120], dec.hex()[:120])
    acc.sample({"plaintext_len": 17, "aes_key": key.hex(), "iv": "default", "expect_padding": "A" * 15})


class Monitor:
    """Wraps c2.decrypt_data to observe whether decryption was entered."""

    def __init__(self, c2):
        self.c2 = c2
        self.entered = 0
        self.real = c2.decrypt_data

    def __enter__(self):
        def spy(*a, **k):
            self.entered += 1
            return self.real(*a, **k)

        self.c2.decrypt_data = spy
        return self

    def __exit__(self, *exc):
        self.c2.decrypt_data = self.real
        return False


def fault_points(ct: bytes, sig: bytes, target: str):
    pts = []
    if target == "ct":
        pts += [("ct-bit", i) for i in range(8 * len(ct))]
        pts += [("ct-trunc", n) for n in range(0, len(ct))]
        pts += [("ct-extend", 1), ("ct-extend", 16)]
    elif target == "sig":
        pts += [("sig-bit", i) for i in range(128)]
        pts += [("sig-trunc", n) for n in range(0, 16)]
        pts += [("sig-extend", 1)]
    elif target == "key":
        pts += [("hkey-bit", i) for i in range(128)]
        pts += [("hkey-none", 0), ("hkey-empty", 0), ("hkey-trunc", 15), ("hkey-extend", 1), ("swap-keys", 0)]
    return pts


def apply_faults(ct, sig, hk, ak, faults):
    ct, sig, hk = bytearray(ct), bytearray(sig), (bytearray(hk) if hk is not None else None)
    for kind, arg in faults:
        if kind == "ct-bit":
            ct[arg // 8] ^= 1 << (arg % 8)
        elif kind == "ct-trunc":
            ct = ct[:arg]
        elif kind == "ct-extend":
            ct = ct + b"\x00" * arg
        elif kind == "sig-bit":
            sig[arg // 8] ^= 1 << (arg % 8)
        elif kind == "sig-trunc":
            sig = sig[:arg]
        elif kind == "sig-extend":
            sig = sig + b"\x00" * arg
        elif kind == "hkey-bit":
            hk[arg // 8] ^= 1 << (arg % 8)
        elif kind == "hkey-none":
            hk = None
        elif kind == "hkey-empty":
            hk = bytearray()
        elif kind == "hkey-trunc":
            hk = hk[:arg] if any(hk[arg:]) else hk  # dropping trailing zero bytes gives an equivalent HMAC key
        elif kind == "hkey-extend":
            hk = hk + b"\x01" * arg  # (a zero byte would give an equivalent HMAC key: HMAC zero-pads short keys)
        elif kind == "swap-keys":
            hk = bytearray(ak)
    return bytes(ct), bytes(sig), (bytes(hk) if hk is not None else None)


def fault_case(acc, c2, base, faults):
    pt, ak, hk, ct, sig = base
    fct, fsig, fhk = apply_faults(ct, sig, hk, ak, faults)
    if (fct, fsig, fhk) == (ct, sig, hk):
        return  # not a change
    acc.transitions += 1
    with Monitor(c2) as mon:
        got = call(c2.decrypt_packet, c2.EncryptedPacket(fct, fsig), ak, fhk)
    ok = isinstance(got, str) and got.startswith("EXC ValueError") and mon.entered == 0
    acc.case((len(pt), tuple(faults)), nontrivial=True, outcome=(got[:24] if isinstance(got, str) else "plaintext", mon.entered))
    if not ok:
        if isinstance(got, bytes):
            sig_ = "C05/tamper/accepted"
        elif mon.entered:
            sig_ = "C05/tamper/decrypted-before-verified"
        else:
            sig_ = "C05/tamper/wrong-exception"
        sig_ += "/" + "+".join(sorted({f[0].split("-")[0] for f in faults}))
        acc.fail(sig_, {"kind": "fault", "plain_len": len(pt), "seed": acc.seed, "faults": [list(f) for f in faults]}, "ValueError before decrypt_data", {"result": got if isinstance(got, str) else got.hex()[:64], "decrypt_entered": mon.entered})


def base_packet(size, seed):
    pt = bytes(lcg(size, seed + 21))
    ak = bytes(lcg(16, seed + 22))
    hk = bytes(lcg(16, seed + 23))
    ct, sig = R.encrypt_packet(pt, ak, hk)
    return pt, ak, hk, ct, sig


def chunk_faults(chunk, acc):
    from dissect.cobaltstrike import c2

    base = base_packet(chunk["size"], acc.seed)
    # zero deviations: the untouched packet verifies and decrypts
    acc.states += 1
    with Monitor(c2) as mon:
        got = call(c2.decrypt_packet, c2.EncryptedPacket(base[3], base[4]), base[1], base[2])
    acc.case(("k0", chunk["size"]), outcome="ok")
    if not isinstance(got, bytes) or got[: len(base[0])] != base[0] or mon.entered != 1:
        acc.fail("C05/decrypt/valid-packet-rejected", {"kind": "fault", "plain_len": chunk["size"], "seed": acc.seed, "faults": []}, base[0].hex()[:64], got if isinstance(got, str) else got.hex()[:64])
    for f in fault_points(base[3], base[4], chunk["target"]):
        acc.states += 1
        fault_case(acc, c2, base, (f,))
    acc.sample({"packet_plain_len": chunk["size"], "ciphertext_len": len(base[3]), "target": chunk["target"], "single_deviations": len(fault_points(base[3], base[4], chunk["target"]))})


def chunk_faults2(chunk, acc):
    """k = 2: every pair (ciphertext bit flip, signature/key bit flip) and (ct bit, ct bit in another block)."""
    from dissect.cobaltstrike import c2

    base = base_packet(chunk["size"], acc.seed)
    ctbits = [("ct-bit", i) for i in range(8 * len(base[3]))]
    other = [("sig-bit", i) for i in range(128)] + [("hkey-bit", i) for i in range(0, 128, 4)] + [("ct-trunc", len(base[3]) - 16)]
    n = 0
    for a in ctbits:
        for b in other:
            n += 1
            if n % 8 != chunk["part"]:
                continue
            acc.states += 1
            fault_case(acc, c2, base, (a, b))
    acc.sample({"packet_plain_len": chunk["size"], "pairs": "ciphertext bit x (signature bit | hmac key bit | truncation)"})


def chunk_decoder_faults(chunk, acc):
    """The traffic decoder on a callback request that carries 1..3 packets, one of which was changed: the message is
    rejected with ValueError; packets in front of the changed one may have been reported, nothing of or after it."""
    from dissect.cobaltstrike import beacon
    from vmc.ref import config as RC

    r = bytes(lcg(16, acc.seed + 61))
    ak, hk = R.derive_keys(r)
    bconfig = beacon.BeaconConfig(RC.http_block())
    plains = [struct.pack(">III", 7 + i, len(d), 0) + d for i, d in enumerate((b"first", b"second packet, longer than one block", b""))]
    pk = [R.encrypt_packet(p, ak, hk) for p in plains]

    def message(packets):
        stream = b"".join((len(ct) + 16).to_bytes(4, "big") + ct + sg for ct, sg in packets)
        return c2.HttpRequest(method=b"POST", uri=b"/submit.php", params={b"id": b"1234"}, headers={}, body=stream)

    from dissect.cobaltstrike import c2

    # the same packet sent more than once (a fixed IV makes the copies byte-identical) is reported every time, within
    # one message and across messages of the same decoder
    acc.states += 1
    dec = c2.C2Http(bconfig, aes_rand=r)
    for rnd, order in enumerate(((0, 0, 1), (0, 1, 0), (1, 1, 1), (0, 0, 1))):
        acc.transitions += 1
        got = call(lambda: [(p.counter, bytes(p.data)) for p in dec.iter_recover_http(message([pk[i] for i in order]))])
        want = [(7 + i, (b"first", b"second packet, longer than one block", b"")[i]) for i in order]
        acc.case(("repeated", rnd, order), nontrivial=True, outcome=str(got)[:60])
        if got != want:
            acc.fail("C05/decoder/repeated-packet-not-reported", {"kind": "decoder_faults", "seed": acc.seed, "order": list(order), "round": rnd}, str(want), str(got)[:300])
    # verification is a property of the decoder *now*: switched on after construction it rejects a changed packet,
    # switched off after construction it does not
    ct0, sg0 = pk[0]
    forged = (bytes([ct0[0] ^ 1]) + ct0[1:], sg0)
    for built, later in ((False, True), (True, False), (True, True), (False, False)):
        acc.states += 1
        acc.transitions += 1
        dec = c2.C2Http(bconfig, aes_rand=r, verify_hmac=built)
        dec.verify_hmac = later
        res = call(lambda: [(p.counter, bytes(p.data)) for p in dec.iter_recover_http(message([forged]))])
        rejected = isinstance(res, str) and res.startswith("EXC ValueError")
        acc.case(("verify-switch", built, later), nontrivial=True, outcome=str(res)[:30])
        if rejected != later:
            acc.fail("C05/decoder/verification-switch-ignored", {"kind": "decoder_faults", "seed": acc.seed, "constructed_with": built, "set_to": later}, "ValueError" if later else "decrypted without verification", str(res)[:200])
    for n in (1, 2, 3):
        acc.states += 1
        dec = c2.C2Http(bconfig, aes_rand=r)
        base = call(lambda: [(p.counter, bytes(p.data)) for p in dec.iter_recover_http(message(pk[:n]))])
        acc.transitions += 1
        acc.case(("intact", n), outcome=str(base)[:60])
        want = [(7 + i, (b"first", b"second packet, longer than one block", b"")[i]) for i in range(n)]
        if base != want:
            acc.fail("C05/decoder/intact-message", {"kind": "decoder_faults", "seed": acc.seed}, str(want), str(base)[:300])
            continue
        for victim in range(n):
            ct, sg = pk[victim]
            faults = [("ct-bit", i, bytes(ct[:i // 8]) + bytes([ct[i // 8] ^ (1 << (i % 8))]) + ct[i // 8 + 1:], sg) for i in range(0, 8 * len(ct), 7)]
            faults += [("sig-bit", i, ct, sg[: i // 8] + bytes([sg[i // 8] ^ (1 << (i % 8))]) + sg[i // 8 + 1:]) for i in range(0, 128, 5)]
            for what, arg, fct, fsg in faults:
                pkts = list(pk[:n])
                pkts[victim] = (fct, fsg)
                got = []
                acc.transitions += 1
                dec = c2.C2Http(bconfig, aes_rand=r)
                try:
                    for p in dec.iter_recover_http(message(pkts)):
                        got.append((p.counter, bytes(p.data)))
                    res = "no exception"
                except ValueError:
                    res = "ValueError"
                except Exception as e:  # noqa
                    res = f"EXC {type(e).__name__}: {e}"
                acc.case(("fault", n, victim, what, arg), nontrivial=True, outcome=(res, len(got)))
                if res != "ValueError" or got != want[:victim]:
                    sig = "C05/decoder/changed-packet-" + ("not-rejected" if res == "no exception" else "wrong-exception" if res != "ValueError" else "yielded")
                    acc.fail(sig, {"kind": "decoder_faults", "seed": acc.seed, "packets": n, "victim": victim, "what": what, "arg": arg}, {"result": "ValueError", "reported": want[:victim]}, {"result": res, "reported": str(got)[:200]})
            # the tail of the message cut off inside the victim packet
            stream = b"".join((len(c) + 16).to_bytes(4, "big") + c + g for c, g in pk[:n])
            start = sum(4 + len(c) + 16 for c, g in pk[:victim])
            for cut in range(start + 5, start + 4 + len(ct) + 16):
                acc.transitions += 1
                dec = c2.C2Http(bconfig, aes_rand=r)
                got = []
                try:
                    for p in dec.iter_recover_http(c2.HttpRequest(method=b"POST", uri=b"/submit.php", params={b"id": b"1234"}, headers={}, body=stream[:cut])):
                        got.append((p.counter, bytes(p.data)))
                    res = "no exception"
                except ValueError:
                    res = "ValueError"
                except Exception as e:  # noqa
                    res = f"EXC {type(e).__name__}: {e}"
                acc.case(("cut", n, victim, cut), nontrivial=True, outcome=(res, len(got)))
                if res != "ValueError" or got != want[:victim]:
                    acc.fail("C05/decoder/truncated-packet-" + ("not-rejected" if res == "no exception" else "wrong-exception" if res != "ValueError" else "yielded"), {"kind": "decoder_faults", "seed": acc.seed, "packets": n, "victim": victim, "what": "cut", "arg": cut}, {"result": "ValueError", "reported": want[:victim]}, {"result": res, "reported": str(got)[:200]})
    acc.sample({"message": "POST /submit.php?id=1234 with 1..3 length-prefixed packets", "faults": "bit flips in ciphertext / signature of each packet, every cut inside each packet"})


def chunk_framing_client(chunk, acc):
    from dissect.cobaltstrike import c2

    lens = (0, 1, 15, 16, 17)
    ak, hk = bytes(lcg(16, acc.seed + 31)), bytes(lcg(16, acc.seed + 32))
    pk = {}
    for ln in lens:
        ct, sig = R.encrypt_packet(bytes(lcg(ln, acc.seed + ln)), ak, hk)
        pk[ln] = (ct, sig)
    for combo in sequences(lens, 3, 1):
        acc.states += 1
        # reference framing: u32be(len(ct)+16) | ct | sig
        stream = b"".join((len(pk[l][0]) + 16).to_bytes(4, "big") + pk[l][0] + pk[l][1] for l in combo)
        lib_stream = b"".join(c2.EncryptedPacket(*pk[l]).dumps() for l in combo)
        acc.transitions += 1
        acc.case(combo, outcome=len(stream))
        if lib_stream != stream:
            acc.fail("C05/framing/dumps", {"kind": "framing", "lens": list(combo), "seed": acc.seed}, stream.hex()[:120], lib_stream.hex()[:120])
            continue
        got = call(lambda: [(bytes(p.ciphertext), bytes(p.signature)) for p in c2.ClientC2Data(output=stream).iter_encrypted_packets()])
        if got != [pk[l] for l in combo]:
            acc.fail("C05/framing/client-split", {"kind": "framing", "lens": list(combo), "seed": acc.seed}, [len(pk[l][0]) for l in combo], got if isinstance(got, str) else [len(g[0]) for g in got])
            continue
        # every packet decrypts to its plaintext
        for l, (ct, sig) in zip(combo, got):
            d = call(c2.decrypt_packet, c2.EncryptedPacket(ct, sig), ak, hk)
            if not isinstance(d, bytes) or d[:l] != bytes(lcg(l, acc.seed + l)):
                acc.fail("C05/framing/packet-content", {"kind": "framing", "lens": list(combo), "seed": acc.seed}, "plaintext", d if isinstance(d, str) else d.hex()[:64])
    for empty in (None, b""):
        got = call(lambda: list(c2.ClientC2Data(output=empty).iter_encrypted_packets()))
        acc.case(("empty", empty), outcome=repr(got))
        if got != []:
            acc.fail("C05/framing/empty", {"kind": "framing_empty", "output": None if empty is None else ""}, [], got)
    acc.sample({"packet_plain_lengths": [0, 17, 16], "frame": "u32be(len(ct)+16) | ct | sig[16]"})


def chunk_framing_server(chunk, acc):
    from dissect.cobaltstrike import c2

    ak, hk = bytes(lcg(16, acc.seed + 41)), bytes(lcg(16, acc.seed + 42))
    for ln in (0, 1, 15, 16, 17, 100, 1000):
        pt = bytes(lcg(ln, acc.seed + ln + 50))
        ct, sig = R.encrypt_packet(pt, ak, hk)
        acc.states += 1
        acc.transitions += 1
        got = call(lambda: [(bytes(p.ciphertext), bytes(p.signature)) for p in c2.ServerC2Data(output=ct + sig).iter_encrypted_packets()])
        acc.case(ln, outcome=len(ct))
        if got != [(ct, sig)]:
            acc.fail("C05/framing/server-split", {"kind": "framing_server", "len": ln, "seed": acc.seed}, [len(ct), 16], got if isinstance(got, str) else [[len(a), len(b)] for a, b in got])
        # a changed task stream pushed through the framing and then verified (what the traffic decoder does): every
        # proper non-empty prefix and (for the short packets) every single-bit flip must be rejected with ValueError
        # before anything is decrypted - it must not be framed as "no packets"
        if ln > 100:
            continue
        stream = ct + sig
        changed = [("trunc", n, stream[:n]) for n in range(1, len(stream))]
        if ln in (0, 17):
            changed += [("bit", i, stream[: i // 8] + bytes([stream[i // 8] ^ (1 << (i % 8))]) + stream[i // 8 + 1 :]) for i in range(8 * len(stream))]
        for what, arg, t in changed:
            acc.transitions += 1
            with Monitor(c2) as mon:
                res = call(lambda: [c2.decrypt_packet(p, ak, hk) for p in c2.ServerC2Data(output=t).iter_encrypted_packets()])
            ok = isinstance(res, str) and res.startswith("EXC ValueError") and mon.entered == 0
            acc.case(("framed", ln, what, arg), nontrivial=True, outcome=(res[:24] if isinstance(res, str) else len(res), mon.entered))
            if not ok:
                sg = "C05/tamper/framed/" + ("not-rejected" if isinstance(res, list) else "wrong-exception" if not mon.entered else "decrypted-before-verified")
                acc.fail(sg, {"kind": "framed_fault", "len": ln, "what": what, "arg": arg, "seed": acc.seed}, "ValueError before decrypt_data", {"result": res if isinstance(res, str) else [r.hex()[:32] for r in res], "decrypt_entered": mon.entered})
    for empty in (None, b""):
        got = call(lambda: list(c2.ServerC2Data(output=empty).iter_encrypted_packets()))
        acc.case(("empty", empty), outcome=repr(got))
        if got != []:
            acc.fail("C05/framing/empty", {"kind": "framing_empty", "output": None if empty is None else ""}, [], got)
    acc.sample({"server_output": "ciphertext | signature[16]", "plain_len": 17})


def run_chunk(chunk, acc):
    globals()["chunk_" + chunk["kind"]](chunk, acc)


def replay(case):
    from dissect.cobaltstrike import c2
    from vmc.runner import Acc

    a = Acc("replay", "quick", case.get("seed", 0))
    k = case["kind"]
    if k == "fault":
        fault_case(a, c2, base_packet(case["plain_len"], case["seed"]), tuple(tuple(f) for f in case["faults"]))
    elif k == "roundtrip":
        pt, key, hk, iv = (bytes.fromhex(case[x]) for x in ("plain", "aes_key", "hmac_key", "iv"))
        pkt = call(c2.encrypt_packet, pt, key, hk, iv)
        ect, esig = R.encrypt_packet(pt, key, hk, iv)
        ok = not isinstance(pkt, str) and (bytes(pkt.ciphertext), bytes(pkt.signature)) == (ect, esig)
        dec = call(c2.decrypt_packet, pkt, key, hk, iv) if ok else None
        ok = ok and isinstance(dec, bytes) and dec == pt + b"A" * (16 - len(pt) % 16)
        return {"ok": ok, "expected": {"ct": ect.hex()[:96], "sig": esig.hex()}, "observed": pkt if isinstance(pkt, str) else {"ct": bytes(pkt.ciphertext).hex()[:96], "sig": bytes(pkt.signature).hex(), "dec": dec.hex()[:96] if isinstance(dec, bytes) else dec}}
    elif k == "decoder_faults":
        chunk_decoder_faults({}, a)
    elif k == "framing":
        chunk_framing_client({}, a)
    elif k == "framing_server":
        chunk_framing_server({}, a)
    else:
        chunk_framing_client({}, a)
        chunk_framing_server({}, a)
    v = a.violations[0] if a.violations else None
    return {"ok": v is None, "expected": v["expected"] if v else None, "observed": v["observed"] if v else None}
