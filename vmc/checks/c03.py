"""C03 - Structured settings decode Cobalt Strike's binary encodings exactly (form G, one BFS per encoding)."""

from __future__ import annotations

import hashlib
import itertools
import struct

from vmc.kernel import sequences
from vmc.ref import programs as P
from vmc.ref import tlv
from vmc.runner import lcg

ID = "C03"
LEVEL = "model_checking"
RULE = (
    "one construction automaton per encoding (append one step / executor / section pair / flag / byte): every "
    "well-formed encoding up to the depth bound is produced by the reference encoder (vmc/ref/programs.py), decoded "
    "by the library (parse_* functions and BeaconConfig(block).settings) and compared with the step list the "
    "encoder was given. BeaconGate: all 2^23 flag vectors (thorough) / all vectors within Hamming distance 2 of the "
    "group unions (quick). non-trivial = the encoding carries at least one step / flag / byte"
    '. Added: arguments ending in NUL bytes; every decoded list is modified by the caller and decoded again. '
)
ASSUMPTIONS = [
    "opcode 14 (STRREP) and unknown opcodes are not valid in HTTP transform programs and are excluded",
    "NUL-terminated strings decode to the bytes before the first NUL read as Latin-1 (lossless)",
    "BeaconGate groups are compared as the prefix All/Comms/Core/Cleanup plus the remainder as a set",
    "NtQueueApcThread-s and NtQueueApcThread_s spell the same executor",
    "kill dates are 8-digit YYYYMMDD integers; the legacy year/month/day settings are not claimed",
    "domain lists are well-formed (an even number of comma separated elements)",
]
BOUNDS = {
    "quick": {"transform_depth": 3, "recover_depth": 5, "execute_depth": 2, "gargle_entries": 4, "bg": "hamming2"},
    "thorough": {"transform_depth": 4, "recover_depth": 5, "execute_depth": 3, "gargle_entries": 4, "bg": "all"},
}

ARGS = (b"", b"A", b"\x00\xff", b"k=v\x00\x00", None)  # None -> 300 LCG bytes; one argument ends in NUL bytes


def transform_symbols(seed):
    big = bytes(lcg(300, seed + 1))
    syms = [(op, None) for op in P.FLAG_OPS]
    for op in P.ARG_OPS:
        for a in ARGS:
            syms.append((op, big if a is None else a))
    syms += [("BUILD", 0), ("BUILD", 1)]
    return syms


def recover_symbols():
    syms = [(op, None) for op in ("BASE64", "PRINT", "NETBIOS", "NETBIOSU", "BASE64URL", "MASK")]
    for op in ("APPEND", "PREPEND"):
        for n in (0, 1, 84, 0xFFFFFFFF):
            syms.append((op, n))
    return syms


def execute_symbols():
    syms = ["CreateThread", "SetThreadContext", "CreateRemoteThread", "RtlCreateUserThread", "NtQueueApcThread", "NtQueueApcThread-s"]
    for name in ("CreateThread_", "CreateRemoteThread_"):
        for off in (0, 1, 0xFFFF):
            for mod in (b"", b"a", b"ntdll.dll"):
                for fn in (b"", b"a", b"RtlUserThreadStart"):
                    syms.append((name, off, mod, fn))
    return syms


STRING_SETTINGS = (8, 54, 26, 27, 15, 29, 30, 9, 10, 60, 61, 62, 63, 64, 65, 66)


def plan(tier, seed):
    b = BOUNDS[tier]
    ch = []
    ts = transform_symbols(seed)
    for i in range(len(ts)):
        ch.append({"key": f"transform/{i}", "kind": "transform", "first": i, "cost": len(ts) ** (b["transform_depth"] - 1)})
    rs = recover_symbols()
    for i in range(len(rs)):
        ch.append({"key": f"recover/{i}", "kind": "recover", "first": i, "cost": len(rs) ** (b["recover_depth"] - 1) // 4})
    es = execute_symbols()
    for i in range(len(es)):
        ch.append({"key": f"execute/{i}", "kind": "execute", "first": i, "cost": len(es) ** (b["execute_depth"] - 1) // 2})
    ch.append({"key": "procinj", "kind": "procinj", "cost": 50})
    for i in range(16):
        ch.append({"key": f"gargle/{i}", "kind": "gargle", "first": i, "cost": 16 ** (b["gargle_entries"] - 1) // 8})
    ch.append({"key": "pivot", "kind": "pivot", "cost": 30})
    for hi in range(0, 256, 16):
        ch.append({"key": f"strings/{hi:02x}", "kind": "strings", "hi": hi, "cost": 400})
    ch.append({"key": "strings/settings", "kind": "strings_settings", "cost": 600})
    ch.append({"key": "pubkey_dns", "kind": "pubkey_dns", "cost": 200})
    if b["bg"] == "all":
        for top in range(128):
            ch.append({"key": f"beacongate/all/{top}", "kind": "bg_all", "top": top, "cost": 65536 * 2})
    else:
        ch.append({"key": "beacongate/hamming2", "kind": "bg_h2", "cost": 3000})
    ch.append({"key": "beacongate/values", "kind": "bg_values", "cost": 100})
    ch.append({"key": "derived", "kind": "derived", "cost": 500})
    return ch


def call(f, *a, **k):
    try:
        return f(*a, **k)
    except Exception as e:  # noqa
        return f"EXC {type(e).__name__}: {e}"


def twice(f, *a, **k):
    """Decode, modify the returned value the way a caller may (it owns it), decode the very same bytes again.
    The second decoding is what gets compared: it must not depend on what happened to the first result."""
    first = call(f, *a, **k)
    if isinstance(first, list):
        try:
            first.reverse()
            first.append(("POISON", True))
        except Exception:
            pass
    second = call(f, *a, **k)
    if isinstance(first, str) and not isinstance(second, str):
        return first
    return second


def _js(steps):
    out = []
    for s in steps if isinstance(steps, (list, tuple)) else [steps]:
        if isinstance(s, (list, tuple)):
            out.append([x.hex() if isinstance(x, (bytes, bytearray)) else x for x in s])
        else:
            out.append(s.hex() if isinstance(s, (bytes, bytearray)) else s)
    return out if not isinstance(steps, str) else steps


# ------------------------------------------------------------------------------------------------------------------


def chunk_transform(chunk, acc):
    from dissect.cobaltstrike import beacon

    syms = transform_symbols(acc.seed)
    depth = BOUNDS[acc.tier]["transform_depth"]
    first = syms[chunk["first"]]
    n = 0
    for rest in sequences(syms, depth - 1):
        steps = (first,) + rest
        acc.states += 1
        n += 1
        # termination variant rotates deterministically over the enumeration; every (program, variant) pair for
        # programs of length <= 2 is run with all variants
        variants = ((True, 0), (False, 0), (True, 7)) if len(steps) <= 2 else (((True, 0), (False, 0), (True, 7))[n % 3],)
        for build0, fn in (("metadata", beacon.parse_transform_binary), ("id", None)):
            for term, pad in variants:
                prog = P.transform_program(steps, terminate=term, pad=pad)
                exp = P.transform_expected(steps, build0)
                got = twice(fn, prog) if fn else twice(beacon.parse_transform_binary, prog, build="id")
                acc.transitions += 1
                acc.case((rest, build0, term, pad), nontrivial=True, outcome=repr(got)[:120])
                if got != exp:
                    acc.fail("C03/transform/steps", {"kind": "transform", "steps": _js(steps), "build0": build0, "terminate": term, "pad": pad}, _js(exp), _js(got) if not isinstance(got, str) else got)
    # through the settings views (GET uses index 12, POST index 13) for the shortest programs
    for rest in sequences(syms, 1):
        steps = (first,) + rest
        for idx, build0 in ((12, "metadata"), (13, "id")):
            blk = tlv.encode([(1, 1, b"\x00\x00"), (idx, 3, P.transform_program(steps).ljust(64, b"\x00"))])
            got = call(lambda: beacon.BeaconConfig(blk).settings["SETTING_C2_REQUEST" if idx == 12 else "SETTING_C2_POSTREQ"])
            acc.transitions += 1
            acc.case(("via-settings", rest, idx))
            if got != P.transform_expected(steps, build0):
                acc.fail("C03/transform/settings-view", {"kind": "transform_setting", "steps": _js(steps), "index": idx}, _js(P.transform_expected(steps, build0)), _js(got) if not isinstance(got, str) else got)
    acc.sample({"program": _js((first,) + tuple(syms[:2])), "encoded": P.transform_program((first,) + tuple(syms[:2])).hex()[:120]})


def chunk_recover(chunk, acc):
    from dissect.cobaltstrike import beacon

    syms = recover_symbols()
    depth = BOUNDS[acc.tier]["recover_depth"]
    first = syms[chunk["first"]]
    n = 0
    for rest in sequences(syms, depth - 1):
        steps = (first,) + rest
        acc.states += 1
        n += 1
        for term, pad in ((True, 0), (False, 0), (True, 5))[: 3 if len(steps) <= 2 else 1 + (n % 2)]:
            prog = P.recover_program(steps, terminate=term, pad=pad)
            got = twice(beacon.parse_recover_binary, prog)
            exp = P.recover_expected(steps)
            acc.transitions += 1
            acc.case((rest, term, pad), outcome=repr(got)[:120])
            if got != exp:
                acc.fail("C03/recover/steps", {"kind": "recover", "steps": _js(steps), "terminate": term, "pad": pad}, _js(exp), _js(got) if not isinstance(got, str) else got)
    blk = tlv.encode([(1, 1, b"\x00\x00"), (11, 3, P.recover_program((first,)).ljust(256, b"\x00"))])
    got = twice(lambda: beacon.BeaconConfig(blk).settings["SETTING_C2_RECOVER"])
    acc.transitions += 1
    acc.case("via-settings")
    if got != P.recover_expected((first,)):
        acc.fail("C03/recover/settings-view", {"kind": "recover_setting", "steps": _js((first,))}, _js(P.recover_expected((first,))), _js(got) if not isinstance(got, str) else got)
    acc.sample({"program": _js((first,) + tuple(syms[:2])), "encoded": P.recover_program((first,) + tuple(syms[:2])).hex()})


def chunk_execute(chunk, acc):
    from dissect.cobaltstrike import beacon

    syms = execute_symbols()
    depth = BOUNDS[acc.tier]["execute_depth"]
    first = syms[chunk["first"]]
    for rest in sequences(syms, depth - 1):
        items = (first,) + rest
        acc.states += 1
        for term in (True, False):
            data = P.execute_list(items, terminate=term)
            exp = P.execute_expected(items)
            got = twice(beacon.parse_execute_list, data)
            acc.transitions += 1
            acc.case((rest, term), outcome=repr(got)[:120])
            g = [P.norm_exec_name(x) for x in got] if isinstance(got, list) else got
            if g != exp:
                acc.fail("C03/execute/list", {"kind": "execute", "items": _js(items), "terminate": term}, exp, got)
    blk = tlv.encode([(1, 1, b"\x00\x00"), (51, 3, P.execute_list((first,)).ljust(128, b"\x00"))])
    got = call(lambda: beacon.BeaconConfig(blk).settings["SETTING_PROCINJ_EXECUTE"])
    acc.transitions += 1
    acc.case("via-settings")
    if not isinstance(got, list) or [P.norm_exec_name(x) for x in got] != P.execute_expected((first,)):
        acc.fail("C03/execute/settings-view", {"kind": "execute_setting", "items": _js((first,))}, P.execute_expected((first,)), got)
    acc.sample({"items": _js((first,) + tuple(syms[:1])), "encoded": P.execute_list((first,) + tuple(syms[:1])).hex()})


def chunk_procinj(chunk, acc):
    from dissect.cobaltstrike import beacon

    vals = [b"", b"\x90", b"\x90\x90", b"\x00\x01\x02", bytes(lcg(300, acc.seed + 2))]
    for a in vals:
        for p in vals:
            acc.states += 1
            data = P.procinj_transform(a, p)
            for pad in (0, 3, 256):
                got = twice(beacon.parse_process_injection_transform_steps, data + b"\x00" * pad)
                acc.transitions += 1
                acc.case((a, p, pad), nontrivial=bool(a or p))
                exp = [("append", a), ("prepend", p)]
                if got != exp:
                    acc.fail("C03/procinj/transform", {"kind": "procinj", "append": a.hex(), "prepend": p.hex(), "pad": pad}, _js(exp), _js(got) if not isinstance(got, str) else got)
            for idx, name in ((46, "SETTING_PROCINJ_TRANSFORM_X86"), (47, "SETTING_PROCINJ_TRANSFORM_X64")):
                blk = tlv.encode([(1, 1, b"\x00\x00"), (idx, 3, data.ljust(700, b"\x00"))])
                got = call(lambda: beacon.BeaconConfig(blk).settings[name])
                acc.transitions += 1
                acc.case((a, p, idx))
                if got != [("append", a), ("prepend", p)]:
                    acc.fail("C03/procinj/settings-view", {"kind": "procinj_setting", "append": a.hex(), "prepend": p.hex(), "index": idx}, _js([("append", a), ("prepend", p)]), _js(got) if not isinstance(got, str) else got)
    acc.sample({"append": "90", "prepend": "000102", "encoded": P.procinj_transform(b"\x90", b"\x00\x01\x02").hex()})


def chunk_gargle(chunk, acc):
    from dissect.cobaltstrike import beacon

    vals = (0, 1, 0x1000, 0xFFFFFFFF)
    pairs = [(a, b) for a in vals for b in vals]
    first = pairs[chunk["first"]]
    for rest in sequences(pairs, BOUNDS[acc.tier]["gargle_entries"] - 1):
        table = (first,) + rest
        acc.states += 1
        for term in (True, False):
            data = P.gargle(table, terminate=term)
            got = twice(beacon.parse_gargle, data)
            exp = P.gargle_expected(table)
            acc.transitions += 1
            acc.case((rest, term), nontrivial=bool(exp))
            if got != exp:
                acc.fail("C03/gargle/sections", {"kind": "gargle", "pairs": [list(p) for p in table], "terminate": term}, exp, got)
    blk = tlv.encode([(1, 1, b"\x00\x00"), (42, 3, P.gargle((first, (0x2000, 0x3000))).ljust(64, b"\x00"))])
    got = call(lambda: beacon.BeaconConfig(blk).settings["SETTING_GARGLE_SECTIONS"])
    acc.transitions += 1
    acc.case("via-settings")
    if got != P.gargle_expected((first, (0x2000, 0x3000))):
        acc.fail("C03/gargle/settings-view", {"kind": "gargle_setting", "pairs": [list(first), [0x2000, 0x3000]]}, P.gargle_expected((first, (0x2000, 0x3000))), got)
    acc.sample({"pairs": [list(first), [0, 0], [0x1000, 0xFFFFFFFF]]})


def chunk_pivot(chunk, acc):
    from dissect.cobaltstrike import beacon

    for ln in range(0, 301):
        frame = bytes(lcg(ln, acc.seed + ln))
        acc.states += 1
        for pad in (None, 128 if ln <= 120 else ln + 10):
            data = P.pivot_frame(frame, pad)
            got = call(beacon.parse_pivot_frame, data)
            acc.transitions += 1
            acc.case((ln, pad), nontrivial=ln > 0)
            if got != frame:
                acc.fail("C03/pivot/frame", {"kind": "pivot", "len": ln, "pad": pad, "seed": acc.seed}, frame.hex()[:80], got.hex()[:80] if isinstance(got, bytes) else got)
        if ln in (0, 1, 4, 100):
            for idx, name in ((57, "SETTING_SMB_FRAME_HEADER"), (58, "SETTING_TCP_FRAME_HEADER")):
                blk = tlv.encode([(1, 1, b"\x00\x00"), (idx, 3, P.pivot_frame(frame, 128))])
                got = call(lambda: beacon.BeaconConfig(blk).settings[name])
                acc.transitions += 1
                acc.case((ln, idx))
                if got != frame:
                    acc.fail("C03/pivot/settings-view", {"kind": "pivot_setting", "len": ln, "index": idx, "seed": acc.seed}, frame.hex()[:80], got.hex()[:80] if isinstance(got, bytes) else got)
    acc.sample({"frame_len": 5, "encoded": P.pivot_frame(b"\x80\x01\x02\x03\x04", 16).hex()})


def ref_cstr(data: bytes) -> str:
    return data.split(b"\x00", 1)[0].decode("latin-1")


def chunk_strings(chunk, acc):
    from dissect.cobaltstrike import beacon

    hi = chunk["hi"]
    for a in range(hi, hi + 16):
        acc.states += 1
        for tail in [b""] + [bytes([b]) for b in range(256)]:
            data = bytes([a]) + tail
            for pad in (b"", b"\x00\x00Z\x00"):
                got = call(beacon.null_terminated_str, data + pad)
                acc.transitions += 1
                acc.case((data, pad), nontrivial=a != 0)
                if got != ref_cstr(data + pad):
                    acc.fail("C03/cstring/value", {"kind": "cstring", "data": (data + pad).hex()}, ref_cstr(data + pad), got)
                gb = call(beacon.null_terminated_bytes, data + pad)
                if gb != (data + pad).split(b"\x00", 1)[0]:
                    acc.fail("C03/cstring/bytes", {"kind": "cstring", "data": (data + pad).hex()}, (data + pad).split(b"\x00", 1)[0].hex(), gb.hex() if isinstance(gb, bytes) else gb)
    if hi == 0:
        got = call(beacon.null_terminated_str, b"")
        acc.case("empty")
        if got != "":
            acc.fail("C03/cstring/value", {"kind": "cstring", "data": ""}, "", got)
    acc.sample({"data": bytes([hi, 0xE9, 0, 0x41]).hex(), "expect": ref_cstr(bytes([hi, 0xE9, 0, 0x41]))})


def chunk_strings_settings(chunk, acc):
    from dissect.cobaltstrike import beacon

    values = [bytes([b]) for b in range(1, 256)] + [b"", b"GET", b"/submit.php", b"a\x00b", b"caf\xe9", b"\xff\xfe", b"x" * 100, b"h1,/u1,h2,/u2", b"\x80\x81 \x7f"]
    for idx in STRING_SETTINGS:
        name = tlv.NAMES[idx]
        acc.states += 1
        for v in values:
            for padlen in (0, 16):
                raw = v + b"\x00" * padlen
                blk = tlv.encode([(1, 1, b"\x00\x00"), (idx, 3, raw), (37, 2, b"\x00\x00\x00\x01")])
                got = call(lambda: beacon.BeaconConfig(blk).settings[name])
                acc.transitions += 1
                acc.case((idx, v, padlen), nontrivial=bool(v))
                if got != ref_cstr(raw):
                    acc.fail("C03/cstring/settings-view", {"kind": "cstring_setting", "index": idx, "raw": raw.hex()}, ref_cstr(raw), got)
    acc.sample({"setting": "SETTING_USERAGENT", "raw": "636166e90000", "expect": "café"})


def chunk_pubkey_dns(chunk, acc):
    from dissect.cobaltstrike import beacon
    from vmc.ref import keys

    for der in (keys.DER_1024, keys.DER_2048, b"\x30\x03\x02\x01\x05", b"\x01"):
        for nul in range(0, 4):
            for pad_to in (0, 256, 300):
                raw = der + b"\x00" * nul
                if pad_to:
                    raw = raw.ljust(pad_to, b"\x00")
                acc.states += 1
                blk = tlv.encode([(1, 1, b"\x00\x00"), (7, 3, raw)])
                bc = beacon.BeaconConfig(blk)
                got = call(lambda: bc.settings["SETTING_PUBKEY"])
                exp = hashlib.sha256(der).hexdigest()
                acc.transitions += 1
                acc.case((der, nul, pad_to))
                if got != exp:
                    acc.fail("C03/pubkey/digest", {"kind": "pubkey", "der": der.hex(), "nul": nul, "pad_to": pad_to}, exp, got)
                pk = call(lambda: bc.public_key)
                if pk != der:
                    acc.fail("C03/pubkey/public_key", {"kind": "pubkey", "der": der.hex(), "nul": nul, "pad_to": pad_to}, der.hex()[:60], pk.hex()[:60] if isinstance(pk, bytes) else pk)
    # DNS idle: every value of each octet with the others at {0, 255}
    for pos in range(4):
        for others in (0, 255):
            for v in range(256):
                octets = [others] * 4
                octets[pos] = v
                acc.states += 1
                blk = tlv.encode([(1, 1, b"\x00\x01"), (19, 2, bytes(octets))])
                got = call(lambda: beacon.BeaconConfig(blk).settings["SETTING_DNS_IDLE"])
                exp = ".".join(str(o) for o in octets)
                acc.transitions += 1
                acc.case(("dns", tuple(octets)), nontrivial=True)
                if got != exp:
                    acc.fail("C03/dns_idle/value", {"kind": "dns_idle", "octets": octets}, exp, got)
    acc.sample({"dns_idle_raw": "0808ff04", "expect": "8.8.255.4"})


# ---- BeaconGate ---------------------------------------------------------------------------------------------------


def bg_check(acc, beacon, enabled_mask, on=1, via_settings=False):
    names = [P.BEACON_GATE_APIS[i] for i in range(23) if enabled_mask >> i & 1]
    raw = P.beacon_gate(set(names), on)
    if via_settings:
        blk = tlv.encode([(1, 1, b"\x00\x00"), (78, 3, raw)])
        got = call(lambda: beacon.BeaconConfig(blk).settings["SETTING_BEACON_GATE"])
    else:
        got = call(lambda: beacon.beacon_gate_options_string(beacon.parse_beacon_gate(raw)))
    groups, rest = P.beacon_gate_expected(names)
    ok = isinstance(got, list) and got[: len(groups)] == groups and set(got[len(groups) :]) == set(rest) and len(got) == len(groups) + len(rest)
    if not ok:
        sig = "C03/beacongate/exception" if isinstance(got, str) else "C03/beacongate/groups"
        acc.fail(sig, {"kind": "beacongate", "mask": enabled_mask, "on": on, "via_settings": via_settings}, {"groups": groups, "rest": sorted(rest)}, got)
    return ok


def chunk_bg_all(chunk, acc):
    from dissect.cobaltstrike import beacon

    top = chunk["top"]
    n = 0
    for low in range(1 << 16):
        mask = (top << 16) | low
        bg_check(acc, beacon, mask)
        n += 1
    acc.states += n
    acc.transitions += n
    acc.bulk(n, n - (1 if top == 0 else 0), outcomes=[top])
    acc.sample({"mask": f"{(top << 16) | 0x1234:023b}", "apis": [P.BEACON_GATE_APIS[i] for i in range(23) if ((top << 16) | 0x1234) >> i & 1]})


def group_masks():
    def m(names):
        return sum(1 << P.BEACON_GATE_APIS.index(n) for n in names)

    c, k, x = m(P.BG_COMMS), m(P.BG_CORE), m(P.BG_CLEANUP)
    return [0, c, k, x, c | k, c | x, k | x, c | k | x]


def chunk_bg_h2(chunk, acc):
    from dissect.cobaltstrike import beacon

    seen = set()
    for base in group_masks():
        for flips in itertools.chain([()], itertools.combinations(range(23), 1), itertools.combinations(range(23), 2)):
            mask = base
            for f in flips:
                mask ^= 1 << f
            if mask in seen:
                continue
            seen.add(mask)
            acc.states += 1
            acc.transitions += 1
            ok = bg_check(acc, beacon, mask)
            acc.case(mask, nontrivial=mask != 0, outcome=ok)
    acc.sample({"mask": f"{group_masks()[1] | 4:023b}", "expect": {"groups": ["Comms"], "rest": ["VirtualAlloc"]}})


def chunk_bg_values(chunk, acc):
    from dissect.cobaltstrike import beacon

    for mask in group_masks() + [1, 1 << 22, 0x2AAAAA, 0x555555]:
        for on in (1, 0xFF, 2):
            for via in (False, True):
                acc.states += 1
                acc.transitions += 1
                ok = bg_check(acc, beacon, mask, on=on, via_settings=via)
                acc.case((mask, on, via), nontrivial=mask != 0, outcome=ok)
    acc.sample({"flag_byte_values": [1, 255, 2], "via_settings": True})


# ---- derived properties ----------------------------------------------------------------------------------------------


def chunk_derived(chunk, acc):
    from dissect.cobaltstrike import beacon

    hosts = ("a.example", "b.example", "10.0.0.1")
    uris = ("/x", "/y", "/x")
    PROTO = {0: "http", 1: "dns", 2: "smb", 4: "tcp", 8: "https", 16: "bind"}
    # domain lists: 1..3 pairs over hosts x uris with duplicates
    for npairs in (1, 2, 3):
        for hs in itertools.product(hosts, repeat=npairs):
            for us in itertools.product(uris[:2], repeat=npairs):
                pairs = list(zip(hs, us))
                s = ",".join(f"{h},{u}" for h, u in pairs).encode()
                for pad in (0, 256):
                    raw = s.ljust(pad, b"\x00") if pad else s
                    blk = tlv.encode([(1, 1, b"\x00\x00"), (8, 3, raw)])
                    bc = beacon.BeaconConfig(blk)
                    acc.states += 1
                    acc.transitions += 1
                    got = call(lambda: (bc.domain_uri_pairs, bc.domains, bc.uris))
                    exp = (pairs, list(dict.fromkeys(hs)), list(dict.fromkeys(us)))
                    acc.case((hs, us, pad))
                    if isinstance(got, str) or ([tuple(p) for p in got[0]], got[1], got[2]) != exp:
                        acc.fail("C03/derived/domains", {"kind": "domains", "raw": raw.hex()}, _js(exp), got if isinstance(got, str) else [list(map(list, got[0])), got[1], got[2]])
    # lists with an empty entry: position decides what an entry is (even = host, odd = URI)
    for raw, pairs in ((b"c1.example.com,,c2.example.com,/en_US/all.js", [("c1.example.com", ""), ("c2.example.com", "/en_US/all.js")]), (b"h1,/a,,/b", [("h1", "/a"), ("", "/b")]), (b"h1,/a,h2,", [("h1", "/a"), ("h2", "")]), (b",/a,h2,/b", [("", "/a"), ("h2", "/b")])):
        bc = beacon.BeaconConfig(tlv.encode([(1, 1, b"\x00\x00"), (8, 3, raw.ljust(256, b"\x00"))]))
        acc.states += 1
        acc.transitions += 1
        got = call(lambda: (bc.domain_uri_pairs, bc.domains, bc.uris))
        exp = (pairs, list(dict.fromkeys(h for h, _ in pairs)), list(dict.fromkeys(u for _, u in pairs)))
        acc.case(("empty-entry", raw))
        if isinstance(got, str) or ([tuple(p) for p in got[0]], got[1], got[2]) != exp:
            acc.fail("C03/derived/domains", {"kind": "domains", "raw": raw.ljust(256, b"\x00").hex()}, _js(exp), got if isinstance(got, str) else [list(map(list, got[0])), got[1], got[2]])
    bc = beacon.BeaconConfig(tlv.encode([(2, 1, b"\x00\x50")]))
    acc.case("nodomains")
    got = call(lambda: (bc.domain_uri_pairs, bc.domains, bc.uris, bc.protocol, bc.watermark, bc.is_trial, bc.killdate, bc.submit_uri, bc.sleeptime, bc.jitter))
    if got != ([], [], [], None, None, False, None, None, None, None):
        acc.fail("C03/derived/absent-settings", {"kind": "absent"}, "empty/None values", repr(got))
    for p in range(64):
        blk = tlv.encode([(1, 1, struct.pack(">H", p)), (2, 1, struct.pack(">H", (p * 1031) & 0xFFFF))])
        bc = beacon.BeaconConfig(blk)
        got = call(lambda: (bc.protocol, bc.port))
        acc.states += 1
        acc.transitions += 1
        acc.case(("proto", p))
        if isinstance(got, str):
            acc.fail("C03/derived/protocol", {"kind": "protocol", "value": p}, "no exception", got)
        elif p in PROTO and got[0] != PROTO[p]:
            acc.fail("C03/derived/protocol", {"kind": "protocol", "value": p}, PROTO[p], got[0])
        elif 0 < p < 32 and (not isinstance(got[0], str) or set(got[0].split("|")) != {PROTO[b] for b in (1, 2, 4, 8, 16) if p & b}):
            # a combination of the known flags (a bind TCP beacon is tcp|bind) names exactly the flags that are set
            acc.fail("C03/derived/protocol", {"kind": "protocol", "value": p}, "|".join(PROTO[b] for b in (1, 2, 4, 8, 16) if p & b), got[0])
        elif got[1] != (p * 1031) & 0xFFFF:
            acc.fail("C03/derived/port", {"kind": "protocol", "value": p}, (p * 1031) & 0xFFFF, got[1])
    for port in (0, 1, 80, 443, 0x7FFF, 0x8000, 0xFFFF):
        for wm in (0, 1, 305419896, 0x7FFFFFFF, 0x80000000, 0xFFFFFFFF):
            for scheme in (0, 1, 2):
                for kd in (0, 20251231, 99999999, 10000101, 20240229):
                    for sleep, jit in ((0, 0), (60000, 37), (0xFFFFFFFF, 99)):
                        recs = [(1, 1, b"\x00\x08"), (2, 1, struct.pack(">H", port)), (3, 2, struct.pack(">I", sleep)), (5, 1, struct.pack(">H", jit)), (31, 1, struct.pack(">H", scheme)), (37, 2, struct.pack(">I", wm)), (40, 2, struct.pack(">I", kd)), (10, 3, b"/submit.php\x00\x00")]
                        bc = beacon.BeaconConfig(tlv.encode(recs))
                        acc.states += 1
                        acc.transitions += 1
                        got = call(lambda: (bc.protocol, bc.port, bc.watermark, bc.is_trial, bc.killdate, bc.sleeptime, bc.jitter, bc.submit_uri))
                        ks = None if kd == 0 else f"{kd // 10000:04d}-{kd // 100 % 100:02d}-{kd % 100:02d}"
                        exp = ("https", port, wm, scheme == 1, ks, sleep, jit, "/submit.php")
                        acc.case((port, wm, scheme, kd, sleep))
                        if got != exp:
                            acc.fail("C03/derived/scalars", {"kind": "scalars", "port": port, "watermark": wm, "scheme": scheme, "killdate": kd, "sleep": sleep, "jitter": jit}, list(exp), got if isinstance(got, str) else list(got))
    acc.sample({"domains_raw": "a.example,/x,b.example,/y", "expect_pairs": [["a.example", "/x"], ["b.example", "/y"]]})


def run_chunk(chunk, acc):
    globals()["chunk_" + chunk["kind"]](chunk, acc)


def replay(case):
    """Re-run the single case through the same comparison code (no explorer): rebuild a one-case accumulator."""
    from dissect.cobaltstrike import beacon
    from vmc.runner import Acc

    a = Acc("replay", "quick", case.get("seed", 0))
    k = case["kind"]

    def unjs(steps):
        out = []
        for s in steps:
            if isinstance(s, list):
                op = s[0]
                arg = s[1] if len(s) > 1 else None
                if isinstance(arg, str):
                    arg = bytes.fromhex(arg)
                out.append(tuple([op, arg] + [bytes.fromhex(x) if isinstance(x, str) else x for x in s[2:]]))
            else:
                out.append(s)
        return out

    if k == "transform":
        steps = unjs(case["steps"])
        prog = P.transform_program(steps, terminate=case["terminate"], pad=case["pad"])
        got = call(beacon.parse_transform_binary, prog, build=case["build0"])
        exp = P.transform_expected(steps, case["build0"])
        return {"ok": got == exp, "expected": _js(exp), "observed": _js(got) if not isinstance(got, str) else got}
    if k == "recover":
        steps = [tuple(s) for s in case["steps"]]
        got = call(beacon.parse_recover_binary, P.recover_program(steps, terminate=case["terminate"], pad=case["pad"]))
        exp = P.recover_expected(steps)
        return {"ok": got == exp, "expected": _js(exp), "observed": _js(got) if not isinstance(got, str) else got}
    if k == "execute":
        items = [tuple([i[0], i[1], bytes.fromhex(i[2]), bytes.fromhex(i[3])]) if isinstance(i, list) else i for i in case["items"]]
        got = call(beacon.parse_execute_list, P.execute_list(items, terminate=case["terminate"]))
        exp = P.execute_expected(items)
        g = [P.norm_exec_name(x) for x in got] if isinstance(got, list) else got
        return {"ok": g == exp, "expected": exp, "observed": got}
    if k == "beacongate":
        ok = bg_check(a, beacon, case["mask"], on=case["on"], via_settings=case["via_settings"])
        v = a.violations[0] if a.violations else None
        return {"ok": ok, "expected": v["expected"] if v else None, "observed": v["observed"] if v else None}
    if k == "gargle":
        table = [tuple(p) for p in case["pairs"]]
        got = call(beacon.parse_gargle, P.gargle(table, terminate=case["terminate"]))
        return {"ok": got == P.gargle_expected(table), "expected": P.gargle_expected(table), "observed": got}
    if k == "cstring":
        d = bytes.fromhex(case["data"])
        got = call(beacon.null_terminated_str, d)
        return {"ok": got == ref_cstr(d), "expected": ref_cstr(d), "observed": got}
    # remaining kinds: rerun the (small) family and report its first failure
    fam = {"transform_setting": None, "recover_setting": None, "execute_setting": None, "procinj": chunk_procinj, "procinj_setting": chunk_procinj, "gargle_setting": None,
           "pivot": chunk_pivot, "pivot_setting": chunk_pivot, "cstring_setting": chunk_strings_settings, "pubkey": chunk_pubkey_dns, "dns_idle": chunk_pubkey_dns,
           "domains": chunk_derived, "absent": chunk_derived, "protocol": chunk_derived, "scalars": chunk_derived}[k]
    if fam is None:
        return {"ok": True, "expected": None, "observed": "family replay not available for this kind; rerun ./check C03"}
    fam({}, a)
    v = a.violations[0] if a.violations else None
    return {"ok": v is None, "expected": v["expected"] if v else None, "observed": v["observed"] if v else None}
