"""C01 - Beacon configuration extraction is exact and complete (form G; two layers)."""

from __future__ import annotations

import io
import itertools
import os
import tempfile

from vmc.ref import config as RC
from vmc.ref import pe as refpe
from vmc.ref import search as RS
from vmc.ref import tlv, xorenc
from vmc.runner import lcg

ID = "C01"
LEVEL = "model_checking"
RULE = (
    "construction automaton: container x block x key x placement offset x surroundings x decoy x search mode x "
    "read-buffer size. Layer A drives iter_beacon_config_blocks and compares the entire yielded candidate sequence "
    "(block bytes, key, XorEncoded flag, in order) with the naive reference search (vmc/ref/search.py); every offset "
    "0..3S+8 for every small buffer size S, and the offsets around 8192/16384 for the real buffer size. Layer B drives "
    "from_bytes / from_file / from_path and compares settings, xorkey, xorencoded, or ValueError. non-trivial = the "
    "payload contains at least one block under some key"
    '. Added families: XorEncoded stages read through buffer sizes that are not a multiple of 4, blocks at decoded offsets 1-3, size-only stubs with marker-like nonces, constructor-level decoys with every caller key order, candidates read immediately and again after the generator is exhausted, extraction histories (P, Q, P). '
)
ASSUMPTIONS = [
    "the relative priority between leftover keys in all-keys mode is implementation-defined (compared per key)",
    "XorEncoded containers carry the end-of-stub marker and a consistent size field, so detection is expected",
    "file objects are io.BytesIO or real files (read(n) returns n bytes unless EOF)",
]
BOUNDS = {"quick": {"small_buffers": (7, 8, 9, 16, 64), "layer_b": "subset"}, "thorough": {"small_buffers": (1, 2, 3, 5, 6, 7, 8, 9, 10, 13, 14, 15, 16, 17, 32, 64), "layer_b": "full"}}
FILLERS = ("00", "ff", "41", "key", "lcg")
XOR_BUFFERS = (7, 9, 13, 509, 1021, 4099)


def blocks(seed):
    minimal = tlv.encode([(1, 1, b"\x00\x00")])
    two = tlv.encode([(1, 1, b"\x00\x08"), (2, 1, b"\x01\xbb")])
    realistic = RC.http_block()
    big = 4090 - (len(realistic) - 2) - 6
    full = tlv.encode(RC.http_settings(extra=[(32, 3, bytes((b % 255) + 1 for b in lcg(big, seed + 5)))]))
    assert len(full) == 4092, len(full)
    ua128 = tlv.encode([(1, 1, b"\x00\x00"), (2, 1, b"\x00\x50"), (9, 3, bytes(0x41 + i % 26 for i in range(128))), (10, 3, b"/submit.php".ljust(64, b"\x00")), (26, 3, b"GET".ljust(16, b"\x00")), (37, 2, b"\x00\x00\x00\x07")])
    return {"minimal": minimal, "two": two, "realistic": realistic, "full": full, "ua128": ua128}


def filler(kind, n, key, seed):
    if kind == "00":
        return b"\x00" * n
    if kind == "ff":
        return b"\xff" * n
    if kind == "41":
        return b"\x41" * n
    if kind == "key":
        return bytes([key]) * n
    return bytes(lcg(n, seed + n))


def plan(tier, seed):
    b = BOUNDS[tier]
    ch = []
    for S in b["small_buffers"]:
        for fk in FILLERS:
            ch.append({"key": f"A/offsets/S{S}/{fk}", "kind": "offsets", "S": S, "filler": fk, "cost": (3 * S + 9) * 60})
    for hi in range(0, 256, 32):
        ch.append({"key": f"A/allkeys/{hi:02x}", "kind": "allkeys", "hi": hi, "cost": 600})
    ch.append({"key": "A/decoys", "kind": "decoys", "cost": 2500})
    for blk in ("realistic", "full"):
        ch.append({"key": f"A/bigbuffer/{blk}", "kind": "bigbuffer", "block": blk, "cost": 1500})
    for arch in ("x86", "x64"):
        ch.append({"key": f"A/containers/{arch}", "kind": "containers", "arch": arch, "cost": 3000})
    for arch in ("x86", "x64"):
        for blk in ("two", "realistic"):
            for key in (0x69, 0x2E, 0x00, 0xAF):
                ch.append({"key": f"A/xorbuffers/{arch}/{blk}/{key:02x}", "kind": "xorbuffers", "arch": arch, "block": blk, "xk": key, "cost": 1500})
    for part in range(8):
        ch.append({"key": f"B/constructors/{part}", "kind": "constructors", "part": part, "cost": 4000})
    ch.append({"key": "B/history-independence", "kind": "history", "cost": 800})
    ch.append({"key": "B/decoys", "kind": "constructor_decoys", "cost": 900})
    return ch


# ------------------------------------------------------------------------------------------------------------------
# layer A
# ------------------------------------------------------------------------------------------------------------------


def lib_candidates(payload: bytes, keys, all_keys: bool, S: int):
    from dissect.cobaltstrike import beacon

    io.DEFAULT_BUFFER_SIZE = S
    try:
        xk = None if keys is None else [bytes([k]) for k in keys]
        out = []
        held = []
        for blk, info in beacon.iter_beacon_config_blocks(io.BytesIO(payload), xor_keys=xk, all_xor_keys=all_keys):
            out.append((bytes(blk), info["xorkey"][0], bool(info["xorencoded"])))
            held.append((blk, info))
            if len(out) > 600:
                break
        # a consumer that collects the candidates first (list(...)) and reads them afterwards sees the same values
        later = [(bytes(blk), info["xorkey"][0], bool(info["xorencoded"])) for blk, info in held]
        if later != out:
            i = next(i for i, (a, b) in enumerate(zip(out, later)) if a != b)
            return f"HELD candidate {i} read after the generator advanced: key/xorencoded {later[i][1:]} instead of {out[i][1:]}"
        return out
    except Exception as e:  # noqa
        return f"EXC {type(e).__name__}: {e}"
    finally:
        io.DEFAULT_BUFFER_SIZE = 8192


def judge_a(views, keys, all_keys, got):
    """-> None or (signature, expected, observed)"""
    eff = list(RS.DEFAULT_KEYS) if keys is None else list(keys)
    if isinstance(got, str):
        return ("C01/search/held-candidate-changed" if got.startswith("HELD") else "C01/search/exception"), "candidate sequence", got
    if not all_keys:
        exp = RS.expected(views, eff)
        if not first_and_subsequence(exp, got):
            return classify(exp, got), summ(exp), summ(got)
        return None
    mode = RS.expected_all_keys(views, eff)
    if mode[0] == "listed":
        if not first_and_subsequence(mode[1], got):
            return classify(mode[1], got), summ(mode[1]), summ(got)
        return None
    per = mode[1]
    gper = {}
    for b, k, f in got:
        gper.setdefault(k, []).append((b, f))
    if set(gper) != set(per) or any(not first_and_subsequence(per[k], gper[k]) for k in per):
        return "C01/search/all-keys-leftover", {k: len(v) for k, v in per.items()}, {k: len(v) for k, v in gper.items()}
    return None


def first_and_subsequence(exp, got):
    """The statement fixes the candidate that is *chosen* (the first in key-priority then file order). Later
    candidates must be true candidates in reference order, but the library may skip some of them (the consumer
    moves the file position between two yields), which the statement does not forbid."""
    if not exp:
        return not got
    if not got or got[0] != exp[0]:
        return False
    # per key, the first candidate must be the first in file order (each key restarts the scan at offset 0)
    seen = set()
    firsts_exp = {}
    for e in exp:
        firsts_exp.setdefault(e[1] if len(e) == 3 else None, e)
    for g in got:
        k = g[1] if len(g) == 3 else None
        if k not in seen:
            seen.add(k)
            if firsts_exp.get(k) != g:
                return False
    it = iter(exp)
    return all(any(g == e for e in it) for g in got)


def classify(exp, got):
    if not got and exp:
        return "C01/search/missed-block"
    if got and not exp:
        return "C01/search/false-candidate"
    if [g[1:] for g in got] != [e[1:] for e in exp]:
        if sorted(g[1:] for g in got) == sorted(e[1:] for e in exp):
            return "C01/search/candidate-order"
        return "C01/search/candidate-set"
    return "C01/search/block-bytes"


def summ(seq):
    return [[len(b), b[:12].hex(), f"{k:02x}", f] for b, k, f in seq[:6]] + ([f"... {len(seq)} total"] if len(seq) > 6 else [])


MODES = (("default", None, False), ("single", "k", False), ("allkeys", None, True))


def chunk_offsets(chunk, acc):
    S, fk = chunk["S"], chunk["filler"]
    B = blocks(acc.seed)
    for o in range(0, 3 * S + 9):
        if fk == "ff" and o > 8:
            # a run of ff bytes is a run of end-of-stub markers: every one of them is tried as a XorEncoded
            # candidate by the library (seconds per payload), so the ff surroundings get a thinner offset menu
            continue
        for bname in ("minimal", "two") if S < 64 else ("two",):
            for key in (0x69, 0x2E, 0x00, 0xAF) if S < 64 else (0x2E, 0xAF):
                blk = RC.obfuscate(B[bname], key)
                for tail in (0, 20) if fk != "ff" else (0, 4):
                    pre = filler(fk, o, key, acc.seed)
                    post = filler(fk, tail, key, acc.seed + 1)
                    payload = pre + blk + post
                    views = [(payload, False)]
                    acc.states += 1
                    for mname, mk, ak in MODES:
                        keys = None if mk is None else [key]
                        if key == 0xAF and mname == "default":
                            pass  # nothing to find under the defaults: expect the empty sequence
                        got = lib_candidates(payload, keys, ak, S)
                        acc.transitions += 1
                        bad = judge_a(views, keys, ak, got)
                        acc.case((o, bname, key, tail, mname), nontrivial=True, outcome=(len(got) if isinstance(got, list) else got, mname))
                        if bad:
                            acc.fail(bad[0], {"kind": "A", "payload": payload.hex(), "keys": keys, "all_keys": ak, "S": S, "xorenc": None}, bad[1], bad[2])
    acc.sample({"buffer": S, "offsets": f"0..{3 * S + 8}", "filler": fk, "block": "minimal", "key": "2e", "modes": [m[0] for m in MODES]})


def chunk_allkeys(chunk, acc):
    B = blocks(acc.seed)
    for key in range(chunk["hi"], chunk["hi"] + 32):
        blk = RC.obfuscate(B["two"], key)
        for S in (16, 8192):
            for o, fk in ((0, "00"), (5, "lcg"), (33, "key")):
                payload = filler(fk, o, key, acc.seed) + blk + filler(fk, 9, key, acc.seed + 2)
                views = [(payload, False)]
                acc.states += 1
                for keys, ak in (([key], False), (None, True), ([0x11, 0x22], True), ([key ^ 1, key], False), ([key, key ^ 1], False), (None, False)):
                    got = lib_candidates(payload, keys, ak, S)
                    acc.transitions += 1
                    bad = judge_a(views, keys, ak, got)
                    acc.case((key, S, o, tuple(keys or ()), ak), outcome=len(got) if isinstance(got, list) else got)
                    if bad:
                        acc.fail(bad[0], {"kind": "A", "payload": payload.hex(), "keys": keys, "all_keys": ak, "S": S, "xorenc": None}, bad[1], bad[2])
    acc.sample({"keys": f"{chunk['hi']:02x}..{chunk['hi'] + 31:02x}", "modes": ["[k]", "all keys (default list)", "all keys (custom list)", "[k^1,k]", "[k,k^1]", "default"]})


def chunk_decoys(chunk, acc):
    B = blocks(acc.seed)
    b1, b2 = B["minimal"], B["two"]
    keysets = ((0x69, 0x2E), (0x2E, 0x69), (0x00, 0x69), (0x2E, 0x2E), (0x69, 0xAF), (0xAF, 0xCC))
    for k1, k2 in keysets:
        for gap in (0, 1, 3, 50):
            for order in ("ab", "ba"):
                first, second = (RC.obfuscate(b1, k1), RC.obfuscate(b2, k2)) if order == "ab" else (RC.obfuscate(b2, k2), RC.obfuscate(b1, k1))
                payload = b"\x90" * 4 + first + bytes(lcg(gap, acc.seed)) + second + b"\x90" * 7
                views = [(payload, False)]
                acc.states += 1
                for keys, ak in ((None, False), ([k1, k2], False), ([k2, k1], False), ([k1], False), (None, True), ([k2], True)):
                    for S in (8, 8192):
                        got = lib_candidates(payload, keys, ak, S)
                        acc.transitions += 1
                        bad = judge_a(views, keys, ak, got)
                        acc.case((k1, k2, gap, order, tuple(keys or ()), ak, S), outcome=[(g[1], len(g[0])) for g in got] if isinstance(got, list) else got)
                        if bad:
                            acc.fail(bad[0] + "/decoy", {"kind": "A", "payload": payload.hex(), "keys": keys, "all_keys": ak, "S": S, "xorenc": None}, bad[1], bad[2])
    # overlapping occurrences of the header itself (block inside a block)
    inner = RC.obfuscate(b1, 0x2E)
    outer = RC.obfuscate(tlv.encode([(1, 1, b"\x00\x00"), (32, 3, RC.obfuscate(b1, 0x00))]), 0x2E)
    for payload in (outer, inner + inner, inner[:7] + inner):
        for S in (7, 8192):
            got = lib_candidates(payload, None, False, S)
            bad = judge_a([(payload, False)], None, False, got)
            acc.transitions += 1
            acc.case((payload, S), outcome=len(got) if isinstance(got, list) else got)
            if bad:
                acc.fail(bad[0] + "/overlap", {"kind": "A", "payload": payload.hex(), "keys": None, "all_keys": False, "S": S, "xorenc": None}, bad[1], bad[2])
    acc.sample({"decoys": "two blocks under (k1,k2) in both file orders, gaps 0/1/3/50", "key_lists": ["default", "[k1,k2]", "[k2,k1]", "[k1]", "all"]})


def chunk_bigbuffer(chunk, acc):
    B = blocks(acc.seed)
    blk0 = B[chunk["block"]]
    offs = [0, 1] + list(range(8185, 8194)) + list(range(16377, 16386))
    for key in (0x69, 0x2E, 0x00):
        for pad in (True, False):
            blk = RC.obfuscate(blk0.ljust(4096, b"\x00") if pad else blk0, key)
            for o in offs:
                for fk in ("00", "lcg"):
                    for tail in (0, 100, 5000):
                        payload = filler(fk, o, key, acc.seed) + blk + filler(fk, tail, key, acc.seed + 3)
                        acc.states += 1
                        got = lib_candidates(payload, None, False, 8192)
                        acc.transitions += 1
                        bad = judge_a([(payload, False)], None, False, got)
                        acc.case((key, pad, o, fk, tail), outcome=len(got) if isinstance(got, list) else got)
                        if bad:
                            acc.fail(bad[0] + "/8192", {"kind": "Abig", "block": chunk["block"], "key": key, "pad": pad, "offset": o, "filler": fk, "tail": tail, "seed": acc.seed}, bad[1], bad[2])
    acc.sample({"block": chunk["block"], "buffer": 8192, "offsets": offs[:4] + ["...", 16385], "block_len": len(blk0)})


def container(kind, arch, blk_obf, prepend, stub, nonce, decoy_raw=b""):
    img = b"\x90" * prepend + refpe.build_pe(arch=arch, data=b"\x11" * 16 + blk_obf + b"\x22" * 16)
    if kind == "pe":
        return img, [(img, False)]
    enc = xorenc.encode(img, nonce=nonce, stub=stub) if not decoy_raw else xorenc.encode(img, nonce=nonce, stub=stub)
    return enc, [(img, True), (enc, False)]


def chunk_containers(chunk, acc):
    arch = chunk["arch"]
    B = blocks(acc.seed)
    # "sled-size-only": no end-of-stub marker, the nonce sits at offset 1020 - only the size field can locate it
    stubs = {"none+marker": xorenc.MARKER, "call": xorenc.CALL_STUB, "sled": b"\x90" * 1000 + xorenc.MARKER, "sled-size-only": b"\x90" * 1020, "short-size-only": b"\x90\x90"}
    nonces = (b"\x00\x00\x00\x00", b"\x12\x34\x56\x78", b"\xfe\xdc\xba\x98")
    for bname in ("two", "realistic"):
        for key in (0x69, 0x2E, 0x00, 0xAF):
            blk = RC.obfuscate(B[bname].ljust(4096, b"\x00"), key)
            for prepend in (0, 8):
                payload, views = container("pe", arch, blk, prepend, None, None)
                acc.states += 1
                for keys, ak in ((None, False), ([key], False), (None, True)):
                    got = lib_candidates(payload, keys, ak, 8192)
                    acc.transitions += 1
                    bad = judge_a(views, keys, ak, got)
                    acc.case(("pe", bname, key, prepend, tuple(keys or ()), ak), outcome=len(got) if isinstance(got, list) else got)
                    if bad:
                        acc.fail(bad[0] + "/pe", {"kind": "Acont", "container": "pe", "arch": arch, "block": bname, "key": key, "prepend": prepend, "keys": keys, "all_keys": ak, "seed": acc.seed}, bad[1], bad[2])
                for sname, stub in stubs.items():
                    # nonces that contain ff ff ff (an in-band occurrence of the end-of-stub marker) for the stubs that
                    # are located through the size field only; prepend 0 so the decoded content starts with the image
                    extra = ((b"\xff\xff\xff\x41", b"\x00\xff\xff\xff", b"\xff\xff\xff\xff") if sname.endswith("size-only") and prepend == 0 else ())
                    for nonce in (nonces if sname == "call" else nonces[1:2]) + extra:
                        payload, views = container("xor", arch, blk, prepend, stub, nonce)
                        acc.states += 1
                        for keys, ak in ((None, False), ([key], False), (None, True)):
                            got = lib_candidates(payload, keys, ak, 8192)
                            acc.transitions += 1
                            bad = judge_a(views, keys, ak, got)
                            acc.case(("xor", bname, key, prepend, sname, nonce, tuple(keys or ()), ak), outcome=[(g[1], g[2]) for g in got] if isinstance(got, list) else got)
                            if bad:
                                acc.fail(bad[0] + "/xorencoded", {"kind": "Acont", "container": "xor", "arch": arch, "block": bname, "key": key, "prepend": prepend, "stub": sname, "nonce": nonce.hex(), "keys": keys, "all_keys": ak, "seed": acc.seed}, bad[1], bad[2])
    # a stage located by the end-of-stub marker whose size field states less (or nothing, or more) than is there: the
    # decoded view still covers everything behind the header
    blk = RC.obfuscate(B["two"].ljust(4096, b"\x00"), 0x2E)
    img = refpe.build_pe(arch=arch, data=b"\x11" * 16 + blk + b"\x22" * 16)
    for declared in (0, 1000, len(img) - 4096, len(img) - 1, len(img) + 64):
        enc = xorenc.encode(img, nonce=nonces[1], stub=xorenc.CALL_STUB, size_ok=False, size_delta=declared - len(img))
        views = [(img, True), (enc, False)]
        acc.states += 1
        for keys, ak in ((None, False), ([0x2E], False)):
            got = lib_candidates(enc, keys, ak, 8192)
            acc.transitions += 1
            bad = judge_a(views, keys, ak, got)
            acc.case(("size-field", declared, tuple(keys or ())), outcome=[(g[1], g[2], len(g[0])) for g in got] if isinstance(got, list) else got)
            if bad:
                acc.fail(bad[0] + "/xorencoded/understated-size-field", {"kind": "Acont", "container": "xor-size", "arch": arch, "declared_size": declared, "keys": keys, "all_keys": ak, "seed": acc.seed}, bad[1], bad[2])
    # a block in front of the image, at decoded offset 1, 2 or 3 (reads that start inside the first encoded dword)
    for lead in (1, 2, 3):
        for key in (0x2E, 0x69, 0x00):
            for bname in ("minimal", "two"):
                small = RC.obfuscate(B[bname], key)
                img = b"\x90" * lead + small + b"\x00" * (8 - len(small) % 4) + refpe.build_pe(arch=arch, data=b"\x33" * 300)
                for nonce in nonces:
                    enc = xorenc.encode(img, nonce=nonce, stub=xorenc.CALL_STUB)
                    views = [(img, True), (enc, False)]
                    acc.states += 1
                    for keys, ak in ((None, False), ([key], False)):
                        got = lib_candidates(enc, keys, ak, 8192)
                        acc.transitions += 1
                        bad = judge_a(views, keys, ak, got)
                        acc.case(("lead", lead, key, bname, nonce, tuple(keys or ())), outcome=[(g[1], g[2]) for g in got] if isinstance(got, list) else got)
                        if bad:
                            acc.fail(bad[0] + "/xorencoded/block-at-decoded-offset-1-3", {"kind": "Acont", "container": "xor-lead", "arch": arch, "lead": lead, "key": key, "block": bname, "nonce": nonce.hex(), "keys": keys, "all_keys": ak, "seed": acc.seed}, bad[1], bad[2])
    # a decoy that is only visible in the raw (encoded) view of a XorEncoded stage: the decoded view wins
    blk = RC.obfuscate(B["two"].ljust(4096, b"\x00"), 0x2E)
    img = refpe.build_pe(arch=arch, data=blk)
    decoy = RC.obfuscate(B["minimal"], 0x69)
    enc = xorenc.encode(img, stub=xorenc.CALL_STUB, trailer=b"")
    enc_decoy = decoy + b"\x90" * 20 + xorenc.encode(img, stub=xorenc.CALL_STUB)
    # (the decoy sits in the stub area: stub = decoy + sled + marker)
    stub = decoy + b"\x90" * 20 + xorenc.MARKER
    enc2 = xorenc.encode(img, stub=stub)
    views = [(img, True), (enc2, False)]
    for keys, ak in ((None, False), ([0x69], False), ([0x69], True)):
        got = lib_candidates(enc2, keys, ak, 8192)
        acc.transitions += 1
        bad = judge_a(views, keys, ak, got)
        acc.case(("rawdecoy", tuple(keys or ()), ak), outcome=[(g[1], g[2]) for g in got] if isinstance(got, list) else got)
        if bad:
            acc.fail(bad[0] + "/raw-view-decoy", {"kind": "Arawdecoy", "arch": arch, "keys": keys, "all_keys": ak, "seed": acc.seed}, bad[1], bad[2])
    acc.sample({"containers": ["PE .data", "XorEncoded PE"], "arch": arch, "stubs": list(stubs), "nonces": [n.hex() for n in nonces]})


def chunk_xorbuffers(chunk, acc):
    """The decoding file object is read through every kind of read-buffer size (sizes that are not a multiple of the
    4-byte XOR chunk make every read start inside a chunk)."""
    arch, bname, key = chunk["arch"], chunk["block"], chunk["xk"]
    B = blocks(acc.seed)
    blk = RC.obfuscate(B[bname].ljust(4096, b"\x00"), key)
    nonce = b"\x12\x34\x56\x78"
    for prepend in (0, 8):
        payload, views = container("xor", arch, blk, prepend, xorenc.CALL_STUB, nonce)
        acc.states += 1
        for S in XOR_BUFFERS:
            for keys, ak in ((None, False), ([key], False), (None, True)):
                if ak and S < 500:
                    continue
                got = lib_candidates(payload, keys, ak, S)
                acc.transitions += 1
                bad = judge_a(views, keys, ak, got)
                acc.case(("xorbuf", bname, key, prepend, tuple(keys or ()), ak, S), outcome=[(g[1], g[2]) for g in got] if isinstance(got, list) else got)
                if bad:
                    acc.fail(bad[0] + "/xorencoded/small-buffer", {"kind": "Axorbuf", "arch": arch, "block": bname, "key": key, "prepend": prepend, "keys": keys, "all_keys": ak, "S": S, "seed": acc.seed}, bad[1], bad[2])
    acc.sample({"container": "XorEncoded PE", "arch": arch, "block": bname, "key": key, "buffer_sizes": list(XOR_BUFFERS)})


# ------------------------------------------------------------------------------------------------------------------
# layer B: the public constructors
# ------------------------------------------------------------------------------------------------------------------


def expect_b(views, keys, all_keys):
    eff = list(RS.DEFAULT_KEYS) if keys is None else list(keys)
    if not all_keys:
        e = RS.expected(views, eff)
        return [e[0]] if e else []
    mode = RS.expected_all_keys(views, eff)
    if mode[0] == "listed":
        return [mode[1][0]]
    # leftover: any first candidate of any leftover key is acceptable
    return [(v[0][0], k, v[0][1]) for k, v in mode[1].items()]


def run_constructor(which, payload, keys, all_keys):
    from dissect.cobaltstrike import beacon

    xk = None if keys is None else [bytes([k]) for k in keys]
    try:
        if which == "bytes":
            bc = beacon.BeaconConfig.from_bytes(payload, xor_keys=xk, all_xor_keys=all_keys)
        elif which == "file":
            bc = beacon.BeaconConfig.from_file(io.BytesIO(payload), xor_keys=xk, all_xor_keys=all_keys)
        else:
            fd, path = tempfile.mkstemp(prefix="c01_", dir="/dev/shm" if os.path.isdir("/dev/shm") else None)
            try:
                with os.fdopen(fd, "wb") as f:
                    f.write(payload)
                bc = beacon.BeaconConfig.from_path(path, xor_keys=xk, all_xor_keys=all_keys)
            finally:
                os.unlink(path)
        return bc
    except ValueError:
        return "ValueError"
    except Exception as e:  # noqa
        return f"EXC {type(e).__name__}: {e}"


def judge_b(views, keys, all_keys, bc):
    acceptable = expect_b(views, keys, all_keys)
    if not acceptable:
        if bc != "ValueError":
            return "C01/constructor/no-block-but-no-ValueError", "ValueError", bc if isinstance(bc, str) else "BeaconConfig"
        return None
    if isinstance(bc, str):
        return "C01/constructor/block-not-found", summ(acceptable), bc
    got = (bytes(bc.config_block), bc.xorkey[0] if bc.xorkey else None, bool(bc.xorencoded))
    if got not in acceptable:
        return "C01/constructor/wrong-candidate", summ(acceptable), summ([got])
    exp_settings = tlv.decode(got[0])
    got_settings = [(s.index.value, s.type.value, s.length, bytes(s.value)) for s in bc.settings_tuple]
    if got_settings != exp_settings:
        return "C01/constructor/settings", [[i, t, l, v[:8].hex()] for i, t, l, v in exp_settings[:6]], [[i, t, l, v[:8].hex()] for i, t, l, v in got_settings[:6]]
    return None


def chunk_constructors(chunk, acc):
    B = blocks(acc.seed)
    cases = []
    n = 0
    for bname in ("minimal", "two", "realistic", "full", "ua128"):
        for key in (0x69, 0x2E, 0x00, 0xAF, 0xCC):
            blk = RC.obfuscate(B[bname].ljust(4096, b"\x00") if bname != "minimal" else B[bname], key)
            for cont in ("raw0", "raw", "rawcut", "pe-x86", "pe-x64", "xor-x86", "xor-x64", "none"):
                n += 1
                if n % 8 != chunk["part"]:
                    continue
                if cont == "raw0":
                    payload, views = blk, [(blk, False)]
                elif cont == "raw":
                    payload = bytes(lcg(333, acc.seed)) + blk + bytes(lcg(77, acc.seed + 1))
                    views = [(payload, False)]
                elif cont == "rawcut":
                    payload = bytes(lcg(50, acc.seed)) + blk[: max(10, len(blk) // 2)]
                    views = [(payload, False)]
                elif cont == "none":
                    payload = bytes(lcg(2000, acc.seed + key))
                    views = [(payload, False)]
                else:
                    arch = cont[-3:]
                    payload, views = container("pe" if cont.startswith("pe") else "xor", arch, blk, 0, xorenc.CALL_STUB, b"\x12\x34\x56\x78")
                cases.append((bname, key, cont, payload, views))
    for bname, key, cont, payload, views in cases:
        acc.states += 1
        for keys, ak in ((None, False), ([key], False), (None, True), ([0x69, 0x2E, 0xAF, 0xCC], False)):
            for which in ("bytes", "file", "path") if (cont in ("raw", "xor-x86") and ak is False) else ("bytes",):
                bc = run_constructor(which, payload, keys, ak)
                acc.transitions += 1
                bad = judge_b(views, keys, ak, bc)
                acc.case((bname, key, cont, tuple(keys or ()), ak, which), nontrivial=cont != "none", outcome=(bc if isinstance(bc, str) else (bc.xorkey, bc.xorencoded, len(bc.settings_tuple))))
                if bad:
                    acc.fail(bad[0], {"kind": "B", "block": bname, "key": key, "container": cont, "keys": keys, "all_keys": ak, "which": which, "seed": acc.seed, "part": chunk["part"]}, bad[1], bad[2])
    acc.sample({"constructors": ["from_bytes", "from_file", "from_path"], "containers": ["raw0", "raw", "rawcut", "pe", "xor", "none"], "checked": ["config_block", "xorkey", "xorencoded", "settings_tuple", "ValueError when nothing"]})


def chunk_constructor_decoys(chunk, acc):
    """Two blocks under different keys in both file orders, through the public constructors with the caller's key
    list in every order: the first key of the caller's list that has a block wins, not the numerically smallest."""
    B = blocks(acc.seed)
    b1, b2 = B["minimal"], B["two"]
    keysets = ((0x69, 0x2E), (0x00, 0x69), (0x69, 0xAF), (0xAF, 0xCC), (0xCC, 0x01))
    for k1, k2 in keysets:
        for order in ("ab", "ba"):
            first, second = (RC.obfuscate(b1, k1), RC.obfuscate(b2, k2)) if order == "ab" else (RC.obfuscate(b2, k2), RC.obfuscate(b1, k1))
            payload = b"\x90" * 4 + first + bytes(lcg(3, acc.seed)) + second + b"\x90" * 7
            views = [(payload, False)]
            acc.states += 1
            for keys, ak in ((None, False), ([k1, k2], False), ([k2, k1], False), ([0xEE, k2, k1], False), ([k1], False), ([k2], False), (None, True), ([k2, k1], True), ([0x69, 0x2E, 0x00], False), ([0x00, 0x2E, 0x69], False)):
                for which in ("bytes", "file", "path"):
                    bc = run_constructor(which, payload, keys, ak)
                    acc.transitions += 1
                    bad = judge_b(views, keys, ak, bc)
                    acc.case(("Bdecoy", k1, k2, order, tuple(keys or ()), ak, which), outcome=(bc if isinstance(bc, str) else (bc.xorkey, len(bc.settings_tuple))))
                    if bad:
                        acc.fail(bad[0] + "/decoy", {"kind": "Bdecoy", "seed": acc.seed}, bad[1], bad[2])
    acc.sample({"payload": "two blocks under (k1,k2), both file orders", "key_lists": ["default", "[k1,k2]", "[k2,k1]", "[ee,k2,k1]", "[k1]", "[k2]", "all", "[69,2e,00]", "[00,2e,69]"], "constructors": ["from_bytes", "from_file", "from_path"]})


def chunk_history(chunk, acc):
    """Extraction is a function of the payload: the same payload gives the same answer whatever was extracted before
    it in the same process (the priority *between* leftover keys is implementation-defined, but it is a fixed one)."""
    B = blocks(acc.seed)
    quiet = bytes((b % 200) + 20 for b in lcg(400, acc.seed + 8))  # no runs of equal bytes, none of the keys below
    pay = {}
    for ka, kb in ((0x10, 0xAA), (0xAA, 0x10), (0x77, 0x81), (0xF0, 0x11)):
        pay[f"two-leftover/{ka:02x}-{kb:02x}"] = quiet[:50] + RC.obfuscate(B["two"], ka) + quiet[50:90] + RC.obfuscate(B["minimal"], kb) + quiet[90:]
    promoters = {}
    for k in (0xAA, 0x10, 0x81, 0x11):
        # zero padding of the block turns into a long run of the key byte, which the all-keys retry counts
        promoters[f"promote/{k:02x}"] = bytes(lcg(9000, acc.seed + k)) + RC.obfuscate(B["two"].ljust(4096, b"\x00"), k) + bytes(lcg(50, acc.seed + 1))

    def extract(data):
        bc = run_constructor("bytes", data, None, True)
        return bc if isinstance(bc, str) else (bytes(bc.config_block)[:32].hex(), bc.xorkey.hex(), bc.xorencoded, len(bc.settings_tuple))

    first = {name: extract(d) for name, d in pay.items()}
    for pname, q in promoters.items():
        acc.states += 1
        extract(q)
        for name, d in pay.items():
            acc.transitions += 1
            again = extract(d)
            acc.case((pname, name), outcome=again)
            if again != first[name]:
                acc.fail("C01/constructor/result-depends-on-earlier-extractions", {"kind": "Bhistory", "payload": name, "after": pname, "seed": acc.seed}, list(first[name]) if not isinstance(first[name], str) else first[name], list(again) if not isinstance(again, str) else again)
    # and the candidate generator likewise
    for name, d in pay.items():
        a = lib_candidates(d, None, True, 8192)
        lib_candidates(promoters["promote/aa"], None, True, 8192)
        b = lib_candidates(d, None, True, 8192)
        acc.transitions += 1
        acc.case(("gen", name), outcome=len(a) if isinstance(a, list) else a)
        if a != b:
            acc.fail("C01/search/result-depends-on-earlier-extractions", {"kind": "Bhistory", "payload": name, "after": "promote/aa", "seed": acc.seed}, summ(a) if isinstance(a, list) else a, summ(b) if isinstance(b, list) else b)
    acc.sample({"history": ["extract P (two blocks under leftover keys 10 and aa)", "extract Q (promotes aa)", "extract P again"], "oracle": "same answer for P"})


def run_chunk(chunk, acc):
    globals()["chunk_" + chunk["kind"]](chunk, acc)


def replay(case):
    from vmc.runner import Acc

    if case["kind"] == "A":
        payload = bytes.fromhex(case["payload"])
        got = lib_candidates(payload, case["keys"], case["all_keys"], case["S"])
        bad = judge_a([(payload, False)], case["keys"], case["all_keys"], got)
        return {"ok": bad is None, "expected": bad[1] if bad else None, "observed": bad[2] if bad else None}
    a = Acc("replay", "quick", case.get("seed", 0))
    if case["kind"] == "Abig":
        chunk_bigbuffer({"block": case["block"]}, a)
    elif case["kind"] == "Bhistory":
        chunk_history({}, a)
    elif case["kind"] in ("Acont", "Arawdecoy"):
        chunk_containers({"arch": case["arch"]}, a)
    elif case["kind"] == "Bdecoy":
        chunk_constructor_decoys({}, a)
    elif case["kind"] == "Axorbuf":
        chunk_xorbuffers({"arch": case["arch"], "block": case["block"], "xk": case["key"]}, a)
    else:
        chunk_constructors({"part": case["part"]}, a)
    v = a.violations[0] if a.violations else None
    return {"ok": v is None, "expected": v["expected"] if v else None, "observed": v["observed"] if v else None}


def standalone(case):
    if case and case.get("kind") == "A":
        return (
            "import io\nfrom dissect.cobaltstrike import beacon\n"
            f"io.DEFAULT_BUFFER_SIZE = {case['S']}\n"
            f"keys = {case['keys']!r}\n"
            f"p = bytes.fromhex({case['payload']!r})\n"
            f"for blk, info in beacon.iter_beacon_config_blocks(io.BytesIO(p), xor_keys=None if keys is None else [bytes([k]) for k in keys], all_xor_keys={case['all_keys']}):\n"
            "    print(info, blk[:16].hex(), len(blk))\n"
        )
    return None
