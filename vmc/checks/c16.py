"""C16 - Raw HTTP messages are parsed into exactly their parts (form G; parse_raw_http)."""

from __future__ import annotations

import itertools

from vmc.kernel import sequences
from vmc.ref import http as H
from vmc.runner import lcg

ID = "C16"
LEVEL = "model_checking"
RULE = (
    "construction automaton: choose method, append path segments, parameters, header lines and a body from small "
    "alphabets; every message up to the bound is serialised by the reference (vmc/ref/http.py: RFC 3986 "
    "percent-encoding, CRLF framing), parsed by parse_raw_http and compared part for part. Responses likewise over "
    "status x reason x headers x bodies. Malformed start lines (0, 1, 2, 4+ tokens, non-numeric status, empty input) "
    "must raise ValueError. non-trivial = the message has at least one parameter, header or body byte"
    '. Added: returned maps are poisoned and the message parsed again, Content-Length vs body, methods in any case, case-differing header names, status lines with fewer / more than three parts. '
)
ASSUMPTIONS = [
    "paths are ASCII origin-form (start with one '/', no '?' or '#', not '//', which is the authority form)",
    "header names are unique within a message (the result type is a map) and lines have the 'Key: value' form",
    "parameter values are non-empty (blank values are dropped by design); spaces are sent as %20, '+' as %2B",
    "LF-only separators are not 'malformed start lines': only 'no exception other than ValueError' is required",
]
BOUNDS = {"quick": {"path_segments": 3, "param_bytes": "all1+pairs", "headers": 3}, "thorough": {"path_segments": 4, "param_bytes": "all1+pairs", "headers": 4}}

METHODS = (b"GET", b"POST", b"M-SEARCH", b"get")
SEGS = (b"", b"a", b".", b"-", b"_", b"~", b"%41", b";", b"=", b":", b"@", b"a;b=c")
HEADERS = ((b"Content-Length", b"3"), (b"Host", b"h.example"), (b"Cookie", b"a=b: c"), (b"X-Trail", b"v  "), (b"Accept", b"*/*"), (b"X-Empty", b""), (b"x-bin", b"\x00\xff\x80"))
BODIES = (b"", b"text", b"a\r\n\r\nb", b"\x00\x00", bytes(range(256)), b"\r\n", b"\r\n\r\n")


def plan(tier, seed):
    ch = []
    for mi in range(len(METHODS)):
        ch.append({"key": f"req/paths/{mi}", "kind": "req_paths", "method": mi, "cost": len(SEGS) ** BOUNDS[tier]["path_segments"]})
    for hi in range(0, 256, 32):
        ch.append({"key": f"req/params/{hi:02x}", "kind": "req_params", "hi": hi, "cost": 600})
    ch.append({"key": "req/params2", "kind": "req_params2", "cost": 400})
    ch.append({"key": "req/headers", "kind": "req_headers", "cost": 600})
    ch.append({"key": "resp", "kind": "resp", "cost": 600})
    ch.append({"key": "malformed", "kind": "malformed", "cost": 100})
    return ch


def call(f, *a, **k):
    try:
        return f(*a, **k)
    except Exception as e:  # noqa
        return f"EXC {type(e).__name__}: {e}"


def norm_req(r):
    return {"method": bytes(r.method), "uri": bytes(r.uri), "params": {bytes(k): bytes(v) for k, v in r.params.items()}, "headers": {bytes(k): bytes(v) for k, v in r.headers.items()}, "body": bytes(r.body)}


def js(d):
    def f(x):
        if isinstance(x, (bytes, bytearray)):
            return x.hex() if len(x) <= 64 else x[:32].hex() + f"..({len(x)})"
        if isinstance(x, dict):
            return {f(k): f(v) for k, v in x.items()}
        return x

    return f(d)


def check_request(acc, method, path, params, headers, body, upper=True):
    from dissect.cobaltstrike import c2

    raw = H.serialize_request(method, path, params, headers, body, upper=upper)
    exp = {"method": method, "uri": path, "params": dict(params), "headers": dict(headers), "body": body}
    got = call(c2.parse_raw_http, raw)
    acc.transitions += 1
    nt = bool(params or headers or body)
    if isinstance(got, str) or type(got).__name__ != "HttpRequest":
        acc.case(raw, nontrivial=nt, outcome=str(got)[:40])
        sig = "C16/request/exception"
        if isinstance(got, str) and "UnicodeEncodeError" in got:
            sig = "C16/request/param-high-byte"
        acc.fail(sig, {"kind": "request", "raw": raw.hex()}, js(exp), got if isinstance(got, str) else type(got).__name__)
        return
    g = norm_req(got)
    # the caller owns what it got back: whatever it does to these maps must not show up in any later parse
    try:
        got.params[b"__poison__"] = b"p"
        got.headers[b"__poison__"] = b"h"
        for k in list(got.params)[:1]:
            got.params[k] = b"overwritten"
    except Exception:
        pass
    acc.case(raw, nontrivial=nt, outcome=(len(g["params"]), len(g["headers"]), len(g["body"])))
    if g != exp:
        diff = [k for k in exp if exp[k] != g[k]]
        sig = "C16/request/" + "+".join(diff)
        if diff == ["headers"] and not headers:
            sig = "C16/request/headers/empty-map"
        if diff == ["uri"] and b";" in path:
            sig = "C16/request/uri/semicolon"
        acc.fail(sig, {"kind": "request", "raw": raw.hex()}, js({k: exp[k] for k in diff}), js({k: g[k] for k in diff}))


def chunk_req_paths(chunk, acc):
    method = METHODS[chunk["method"]]
    for segs in sequences(SEGS, BOUNDS[acc.tier]["path_segments"], 1):
        path = b"/" + b"/".join(segs)
        if path.startswith(b"//"):
            continue
        acc.states += 1
        check_request(acc, method, path, [], [], b"")
        if len(segs) <= 2:
            check_request(acc, method, path, [(b"k", b"v")], [HEADERS[0]], b"body")
    acc.sample({"method": method.decode(), "path": "/a;b=c/%41", "wire": H.serialize_request(method, b"/a;b=c/%41", [], [], b"").decode()})


def chunk_req_params(chunk, acc):
    hi = chunk["hi"]
    for b in range(hi, hi + 32):
        x = bytes([b])
        acc.states += 1
        for params in ([(x, b"v")], [(b"k", x)], [(x, x)], [(b"k" + x, b"v" + x + b"w")], [(b"a", b"1"), (x + b"2", x)], [(b"", x)]):
            if len({k for k, _ in params}) != len(params):
                continue
            check_request(acc, b"GET", b"/p", params, [], b"")
        check_request(acc, b"POST", b"/p", [(b"id", x + x)], [HEADERS[0]], x, upper=False)
    acc.sample({"param": {"k": f"{hi:02x}"}, "wire": H.serialize_request(b"GET", b"/p", [(b"k", bytes([hi]))], [], b"").decode("latin-1")})


def chunk_req_params2(chunk, acc):
    syntax = (b"&", b"=", b"+", b" ", b"%", b"%41", b";", b"?", b"#", b"/", b"\x00", b"\xff", b"\xc3\xa9", b"a")
    for a, b in itertools.product(syntax, repeat=2):
        acc.states += 1
        check_request(acc, b"GET", b"/s", [(a + b, b + a)], [], b"")
        check_request(acc, b"GET", b"/s", [(a, b), (b + b"2", a)], [HEADERS[1]], b"x")
    if BOUNDS[acc.tier]["param_bytes"] == "all1+pairs":
        for a in range(0, 256, 3):
            for b in range(0, 256, 5):
                acc.states += 1
                check_request(acc, b"GET", b"/s", [(bytes([a, b]), bytes([b, a]))], [], b"")
    acc.sample({"param": {"&=": "=&"}, "wire": H.serialize_request(b"GET", b"/s", [(b"&=", b"=&")], [], b"").decode()})


def chunk_req_headers(chunk, acc):
    for n in range(0, BOUNDS[acc.tier]["headers"] + 1):
        for hs in itertools.permutations(HEADERS, n):
            acc.states += 1
            for body in BODIES if n <= 1 else BODIES[:3]:
                for params in ([], [(b"q", b"1")]):
                    check_request(acc, b"GET", b"/h", params, list(hs), body)
    # header names are byte strings: names that differ only in letter case are different keys
    for hs in ([(b"Host", b"a"), (b"host", b"b")], [(b"x-id", b"1"), (b"X-ID", b"2"), (b"X-Id", b"3")], [(b"cookie", b"a"), (b"Accept", b"*/*"), (b"Cookie", b"b")]):
        acc.states += 1
        check_request(acc, b"GET", b"/h", [], hs, b"x")
        check_request(acc, b"POST", b"/h", [(b"q", b"1")], hs[::-1], b"")
    # header maps and bodies are independent: a Content-Length that is smaller / larger than the body, or zero
    for cl in (b"0", b"1", b"16", b"999999", b"-1", b"abc"):
        for body in BODIES:
            acc.states += 1
            check_request(acc, b"POST", b"/h", [], [(b"Content-Length", cl), (b"Host", b"h")], body)
    acc.sample({"headers": [[k.decode(), v.decode("latin-1")] for k, v in HEADERS[:3]], "body": "a\\r\\n\\r\\nb"})


def chunk_resp(chunk, acc):
    from dissect.cobaltstrike import c2

    for status in (0, 99, 100, 200, 404, 599, 999, 1000):
        for reason in (b"OK", b"Not-Found", b"x", b"200"):
            for version in (b"HTTP/1.1", b"HTTP/1.0", b"http/1.1"):
                for n in range(0, 3):
                    for hs in itertools.permutations(HEADERS[:5], n):
                        acc.states += 1
                        for body in BODIES if n <= 1 and version == b"HTTP/1.1" else BODIES[:2]:
                            raw = H.serialize_response(status, reason, list(hs), body, version=version)
                            if (status + len(body)) % 2:
                                # an unrelated request was parsed just before (half of the cases)
                                call(c2.parse_raw_http, b"POST /earlier?x=1 HTTP/1.1\r\nHost: e\r\n\r\nbody")
                            got = call(c2.parse_raw_http, raw)
                            acc.transitions += 1
                            exp = {"status": status, "reason": reason, "headers": dict(hs), "body": body}
                            if isinstance(got, str) or type(got).__name__ != "HttpResponse":
                                acc.case(raw, outcome=str(got)[:40])
                                acc.fail("C16/response/exception", {"kind": "response", "raw": raw.hex()}, js(exp), got if isinstance(got, str) else type(got).__name__)
                                continue
                            g = {"status": got.status, "reason": bytes(got.reason), "headers": {bytes(k): bytes(v) for k, v in got.headers.items()}, "body": bytes(got.body)}
                            if getattr(got, "request", None) is not None:
                                # a parsed response consists of exactly its own parts
                                acc.case(raw, nontrivial=True, outcome="request-attached")
                                acc.fail("C16/response/carries-an-unrelated-request", {"kind": "response", "raw": raw.hex(), "after_request": True}, "request = None", repr(got.request)[:200])
                                continue
                            try:
                                got.headers[b"__poison__"] = b"h"
                            except Exception:
                                pass
                            acc.case(raw, nontrivial=True, outcome=(g["status"], len(g["headers"]), len(g["body"])))
                            if g != exp:
                                diff = [k for k in exp if exp[k] != g[k]]
                                sig = "C16/response/" + "+".join(diff)
                                if diff == ["headers"] and not hs:
                                    sig = "C16/response/headers/empty-map"
                                acc.fail(sig, {"kind": "response", "raw": raw.hex()}, js({k: exp[k] for k in diff}), js({k: g[k] for k in diff}))
    acc.sample({"status": 404, "reason": "Not-Found", "wire": H.serialize_response(404, b"Not-Found", [HEADERS[0]], b"x").decode()})


def chunk_malformed(chunk, acc):
    from dissect.cobaltstrike import c2

    tokens = (b"GET", b"/", b"HTTP/1.1", b"x", b"200", b"OK")
    lines = [b""]
    for n in (1, 2, 4, 5):
        for t in itertools.product(tokens, repeat=n):
            lines.append(b" ".join(t))
    lines += [b"HTTP/1.1 abc OK", b"HTTP/1.1 20x OK", b"HTTP/1.1 \xff\xfe OK", b"HTTP/1.1 200", b"HTTP/1.1", b"HTTP/1.1 200 Not Found", b" ", b"\t", b"GET /", b"GET  HTTP/1.1", b"\x00", b"\xff" * 10]
    tails = (b"", b"\r\n\r\n", b"\r\nHost: h\r\n\r\nbody")
    for line in lines:
        acc.states += 1
        for tail in tails:
            raw = line + tail
            got = call(c2.parse_raw_http, raw)
            acc.transitions += 1
            acc.case(raw, nontrivial=True, outcome=str(got)[:30])
            if not (isinstance(got, str) and got.startswith("EXC ") and _is_value_error(got)):
                acc.fail("C16/malformed/not-rejected" if not isinstance(got, str) else "C16/malformed/wrong-exception", {"kind": "malformed", "raw": raw.hex()}, "ValueError", got if isinstance(got, str) else repr(got)[:200])
    # LF-only / bare inputs: anything but a non-ValueError exception is acceptable
    for raw in (b"GET / HTTP/1.1\nHost: h\n\nbody", b"GET / HTTP/1.1\n\n", b"HTTP/1.1 200 OK\nA: b\n\n", b"\r\n\r\n", b"\r\n", b"\n", b": \r\n\r\n"):
        got = call(c2.parse_raw_http, raw)
        acc.transitions += 1
        acc.case(raw, outcome=str(got)[:30])
        if isinstance(got, str) and not _is_value_error(got):
            acc.fail("C16/malformed/wrong-exception", {"kind": "lenient", "raw": raw.hex()}, "result or ValueError", got)
    acc.sample({"start_lines": ["", "GET", "GET /", "GET / HTTP/1.1 x", "HTTP/1.1 abc OK"], "expect": "ValueError"})


def _is_value_error(s: str) -> bool:
    name = s.split()[1].rstrip(":")
    return name in ("ValueError", "UnicodeDecodeError", "UnicodeEncodeError", "UnicodeError") and name in ("ValueError", "UnicodeDecodeError")


def run_chunk(chunk, acc):
    globals()["chunk_" + chunk["kind"]](chunk, acc)


def replay(case):
    from dissect.cobaltstrike import c2

    raw = bytes.fromhex(case["raw"])
    got = call(c2.parse_raw_http, raw)
    if case["kind"] in ("malformed", "lenient"):
        ok = isinstance(got, str) and _is_value_error(got) if case["kind"] == "malformed" else not (isinstance(got, str) and not _is_value_error(got))
        return {"ok": ok, "expected": "ValueError", "observed": got if isinstance(got, str) else repr(got)[:300]}
    exp = H.parse(raw)
    if isinstance(got, str):
        return {"ok": False, "expected": js(exp), "observed": got}
    if exp["type"] == "request":
        g = norm_req(got)
        e = {k: exp[k] for k in g}
    else:
        g = {"status": got.status, "reason": bytes(got.reason), "headers": {bytes(k): bytes(v) for k, v in got.headers.items()}, "body": bytes(got.body)}
        e = {k: exp[k] for k in g}
    return {"ok": g == e, "expected": js(e), "observed": js(g)}


def standalone(case):
    return f"from dissect.cobaltstrike import c2\nprint(c2.parse_raw_http(bytes.fromhex({case['raw']!r})))\n" if case else None
