"""C08 - Untrusted input never crashes or hangs the parsers (form D: deviation-bounded fault enumeration)."""

from __future__ import annotations

import io
import itertools
import os
import struct
import sys
import tempfile

from vmc.kernel import deviation_sets, sequences
from vmc.ref import config as RC
from vmc.ref import guardrails as G
from vmc.ref import http as RH
from vmc.ref import pe as refpe
from vmc.ref import tlv, xorenc
from vmc.runner import Hang, lcg, watchdog

ID = "C08"
LEVEL = "fault_enumeration"
RULE = (
    "seeds = small valid artefacts from the reference builders (raw block with an over-long User-Agent, PE-embedded "
    "x86/x64, XorEncoded, Guardrails-protected, ArtifactKit file, HTTP request/response). Enumerated: every set of "
    "<= k deviations (k=1 quick, k=2 thorough over the structural fields) with boundary alternatives per field; every "
    "truncation point inside the structural windows (and every 64th byte elsewhere; all of them in thorough); splices "
    "of seed halves; all byte strings of length <= 2 and short strings over a structural alphabet. Every input runs "
    "through every applicable entry point under a watchdog; a watchdog hit is confirmed with a deterministic "
    "line-event budget. Allowed outcomes: documented result / not-found value / ValueError. non-trivial = the input "
    "differs from a valid seed or is not empty"
    '. Added: a seed behind 1000 prepended bytes, 13 more PE header fields, HTTP token strings, guard marker at offsets 6120-6149, and three differential oracles (bytes vs path agree; the intact seed evaluates the same first and last in a chunk; well-formed payloads yield a configuration; the ArtifactKit scanner is independent of the handle position). '
)
ASSUMPTIONS = [
    "a call that needs more than 3,000,000 line events inside dissect/cobaltstrike on inputs <= 24 KB is a hang",
    "from_path runs on a real file (tmpfs) because negative seeks only surface as OSError there",
    "quick tier: truncation coverage is exhaustive for the structural windows only (stated in coverage.exhaustive_scope)",
]
BOUNDS = {"quick": {"k": 1, "trunc": "windows+64", "short_alpha_len": 3, "http_tokens": 4}, "thorough": {"k": 2, "trunc": "all", "short_alpha_len": 4, "http_tokens": 5}}
LINE_BUDGET = 3_000_000
WATCHDOG_S = 25.0


# ------------------------------------------------------------------------------------------------------------------
# entry points
# ------------------------------------------------------------------------------------------------------------------


def ep_from_bytes(data):
    from dissect.cobaltstrike import beacon

    return beacon.BeaconConfig.from_bytes(data)


def ep_from_bytes_all(data):
    from dissect.cobaltstrike import beacon

    return beacon.BeaconConfig.from_bytes(data, all_xor_keys=True)


def ep_from_file(data):
    from dissect.cobaltstrike import beacon

    return beacon.BeaconConfig.from_file(io.BytesIO(data), xor_keys=[b"\x2e", b"\xaf"])


def ep_from_path(data):
    from dissect.cobaltstrike import beacon

    fd, path = tempfile.mkstemp(prefix="c08_", dir="/dev/shm" if os.path.isdir("/dev/shm") else None)
    try:
        with os.fdopen(fd, "wb") as f:
            f.write(data)
        return beacon.BeaconConfig.from_path(path)
    finally:
        os.unlink(path)


def ep_from_path_all(data):
    from dissect.cobaltstrike import beacon

    fd, path = tempfile.mkstemp(prefix="c08_", dir="/dev/shm" if os.path.isdir("/dev/shm") else None)
    try:
        with os.fdopen(fd, "wb") as f:
            f.write(data)
        return beacon.BeaconConfig.from_path(path, all_xor_keys=True)
    finally:
        os.unlink(path)


def ep_guard_options(data):
    """from_bytes on a payload with two Guardrails areas of which only the second verifies: the guard settings that
    come with the configuration are the second area's (GUARD_COMPUTER + checksum), nothing of the first one."""
    from dissect.cobaltstrike import beacon

    bc = beacon.BeaconConfig.from_bytes(data)
    opts = [s.option.value for s in bc.guardrails.settings]
    if opts != [G.G_COMPUTER, G.G_CHECKSUM]:
        raise Disagree(f"guard settings of the returned configuration: options {opts}, expected {[G.G_COMPUTER, G.G_CHECKSUM]}")
    return opts


def ep_block(data):
    from dissect.cobaltstrike import beacon

    bc = beacon.BeaconConfig(data)
    return len(bc.settings_tuple)


def ep_xor_from_file(data):
    from dissect.cobaltstrike.xordecode import XorEncodedFile

    xf = XorEncodedFile.from_file(io.BytesIO(data))
    return xf.read(64)


def _pe(name):
    def f(data):
        from dissect.cobaltstrike import pe

        return getattr(pe, name)(io.BytesIO(data))

    f.__name__ = "ep_pe_" + name
    return f


class Disagree(Exception):
    pass


def ep_artifact(data):
    from dissect.cobaltstrike import artifact

    fh = io.BytesIO(data)
    first = [a.offset for a in itertools.islice(artifact.iter_artifactkit_payloads(fh), 2000)]
    # the documented default (start_offset=0) scans from the start wherever the handle was left
    fh.seek(0, io.SEEK_END)
    again = [a.offset for a in itertools.islice(artifact.iter_artifactkit_payloads(fh), 2000)]
    if again != first:
        raise Disagree(f"fresh handle: {first[:5]}, same handle positioned at its end: {again[:5]}")
    return first


def ep_http(data):
    from dissect.cobaltstrike import c2

    return c2.parse_raw_http(data)


PE_EPS = [_pe(n) for n in ("find_mz_offset", "find_architecture", "find_compile_stamps", "find_magic_mz", "find_magic_pe", "find_stage_prepend_append")]
BEACON_EPS = [ep_from_bytes, ep_xor_from_file] + PE_EPS
ALL_EPS = {f.__name__: f for f in [ep_guard_options, ep_from_bytes, ep_from_bytes_all, ep_from_file, ep_from_path, ep_from_path_all, ep_block, ep_xor_from_file, ep_artifact, ep_http] + PE_EPS}


class Budget(Exception):
    pass


def confirm_hang(fn, data):
    """Deterministic re-run: count line events in dissect/cobaltstrike frames."""
    count = [0]

    def local(frame, event, arg):
        if event == "line":
            count[0] += 1
            if count[0] > LINE_BUDGET:
                raise Budget()
        return local

    def tracer(frame, event, arg):
        if "dissect/cobaltstrike" in frame.f_code.co_filename:
            return local
        return None

    sys.settrace(tracer)
    try:
        fn(data)
        return False, count[0]
    except Budget:
        return True, count[0]
    except BaseException:
        return False, count[0]
    finally:
        sys.settrace(None)


def run_ep(acc, fn, data, case):
    """One execution of one entry point on one input."""
    acc.transitions += 1
    name = fn.__name__[3:]
    try:
        with watchdog(WATCHDOG_S):
            fn(data)
        out = "ok"
    except ValueError as e:
        out = "ValueError"
    except Hang:
        hung, lines = confirm_hang(fn, data)
        if hung:
            out = "HANG"
            acc.fail(f"C08/hang/{name}", dict(case, entry=fn.__name__), "terminates", f"more than {LINE_BUDGET} line events")
        else:
            out = "slow"
            acc.count("slow_but_terminating")
    except Disagree as e:
        out = "Disagree"
        sig = "C08/documented-result/guard-settings-of-another-area" if str(e).startswith("guard settings") else f"C08/result-depends-on-handle-position/{name}"
        acc.fail(sig, dict(case, entry=fn.__name__), "the same result" if "handle" in sig else "GUARD_COMPUTER + GUARD_PAYLOAD_CHECKSUM", str(e)[:200])
    except MemoryError:
        out = "MemoryError"
        acc.fail(f"C08/exception/{name}/MemoryError", dict(case, entry=fn.__name__), "result or ValueError", "MemoryError")
    except RecursionError:
        out = "RecursionError"
        acc.fail(f"C08/exception/{name}/RecursionError", dict(case, entry=fn.__name__), "result or ValueError", "RecursionError")
    except Exception as e:  # noqa
        out = type(e).__name__
        acc.fail(f"C08/exception/{name}/{out}", dict(case, entry=fn.__name__), "result or ValueError", f"{out}: {str(e)[:160]}")
    return out


def snapshot(eps, data):
    """Canonical results of every entry point on one input (used to compare the first and the last evaluation of the
    intact seed within a chunk: a documented result is a function of the input bytes, not of earlier inputs)."""
    out = []
    for fn in eps:
        try:
            with watchdog(WATCHDOG_S):
                r = fn(data)
            if hasattr(r, "settings_tuple"):
                r = ("BeaconConfig", getattr(r, "xorkey", None), len(r.settings_tuple), getattr(r, "pe_compile_stamp", None), getattr(r, "architecture", None))
            out.append((fn.__name__, "ok", repr(r)[:300]))
        except BaseException as e:  # noqa
            out.append((fn.__name__, type(e).__name__, ""))
    return out


def compare_snapshots(acc, first, last, case):
    for a, b in zip(first, last):
        if a != b:
            acc.fail("C08/result-depends-on-earlier-inputs/" + a[0][3:], dict(case, entry=a[0]), list(a[1:]), list(b[1:]))
            return


def run_input(acc, eps, data, case, key, nontrivial=True, expect_ok=False):
    outs = tuple(run_ep(acc, fn, data, case) for fn in eps)
    acc.case(key, nontrivial=nontrivial, outcome=outs)
    if expect_ok:
        # inputs built around a well-formed configuration: the documented result is that configuration, not the
        # documented "nothing found" error
        for fn, o in zip(eps, outs):
            if o == "ValueError":
                acc.fail(f"C08/documented-result/not-found-although-present/{fn.__name__[3:]}", dict(case, entry=fn.__name__, expect_ok=True), "a configuration", "ValueError")
                break
    # the same bytes handed over as bytes and as a path have the same documented result: both a configuration or
    # both the documented ValueError
    if ep_from_bytes in eps and ep_from_path in eps:
        a, b = outs[eps.index(ep_from_bytes)], outs[eps.index(ep_from_path)]
        if {a, b} == {"ok", "ValueError"}:
            acc.fail("C08/entry-points-disagree/from_bytes-vs-from_path", dict(case, entry="ep_from_bytes+ep_from_path"), {"from_bytes": a}, {"from_path": b})


# ------------------------------------------------------------------------------------------------------------------
# seeds
# ------------------------------------------------------------------------------------------------------------------

UA128 = bytes((0x41 + (i % 26)) for i in range(128))


def seed_block():
    """Plain config block (to be obfuscated) with an over-long User-Agent followed by further settings."""
    pre = tlv.rec(1, 1, b"\x00\x00") + tlv.rec(2, 1, b"\x01\xbb") + tlv.rec(3, 2, b"\x00\x00\xea\x60")
    ua = tlv.rec(9, 3, UA128) + b"0123456789"
    post = tlv.rec(10, 3, b"/submit.php".ljust(64, b"\x00")) + tlv.rec(26, 3, b"GET".ljust(16, b"\x00")) + tlv.rec(37, 2, b"\x00\x00\x00\x07") + b"\x00\x00"
    blk = pre + ua + post
    fields = {
        "proto_type": (2, 2), "proto_len": (4, 2), "port_index": (8, 2), "port_type": (10, 2), "port_len": (12, 2),
        "sleep_len": (20, 2), "ua_index": (len(pre), 2), "ua_type": (len(pre) + 2, 2), "ua_len": (len(pre) + 4, 2),
        "ua_last": (len(pre) + 6 + 127, 1), "ua_cont_end": (len(pre) + 6 + 128 + 9, 1), "after_ua_index": (len(pre) + 6 + 138, 2),
        "submit_len": (len(pre) + 6 + 138 + 4, 2), "terminator": (len(blk) - 2, 2),
    }
    windows = [0, 8, 16, len(pre), len(pre) + 6, len(pre) + 6 + 128, len(pre) + 6 + 138, len(blk) - 8, len(blk)]
    return blk, fields, windows


def obf(blk, key=0x2E):
    return bytes(b ^ key for b in blk)


def build_seed(name, seed, inner_mut=None, outer_mut=None):
    """-> (bytes, inner field map, outer field map, truncation windows, applicable entry points)

    inner_mut / outer_mut: functions bytes->bytes applied to the inner structure (plain block / PE image / protected
    area) before it is wrapped, and to the final container."""
    im = inner_mut or (lambda b: b)
    om = outer_mut or (lambda b: b)
    if name == "rawblock":
        blk, fields, win = seed_block()
        inner = im(blk)
        pre = bytes(lcg(23, seed))
        outer = pre + obf(inner) + bytes(lcg(9, seed + 1))
        return om(outer), fields, {"first_filler": (0, 4)}, [23 + w for w in win], [ep_from_bytes, ep_from_bytes_all, ep_from_file, ep_from_path, ep_xor_from_file]
    if name == "plainblock":  # BeaconConfig(block) directly
        blk, fields, win = seed_block()
        return om(im(blk)), fields, {}, win, [ep_block]
    if name == "pe-pre1000":
        # the x86 image behind 1000 prepended bytes: every header the helpers validate lies beyond the first KiB
        data, fields, ofields, win, eps = build_seed("pe-x86", seed, inner_mut, None)
        outer = b"\x90" * 1000 + data
        return om(outer), fields, {"prepend_mid": (500, 2), "prepend_last": (998, 2)}, sorted({0, 1000} | {1000 + w for w in win}), eps
    if name in ("pe-x86", "pe-x64", "xor-x86"):
        arch = name[-3:]
        blk = RC.http_block(pad=None)[:600] + b"\x00\x00"
        blk = tlv.encode(RC.http_settings()[:6] + [(8, 3, b"h,/u".ljust(32, b"\x00")), (37, 2, b"\x00\x00\x00\x01")])
        img = refpe.build_pe(arch=arch, data=b"\x11" * 8 + obf(blk) + b"\x22" * 8, append=b"TAIL")
        lay = refpe.layout(arch, 0x80, 0)
        fields = {k: v for k, v in lay.items() if isinstance(v, tuple)}
        fields["mz_magic"] = (0, 2)
        fields["stub"] = (4, 4)
        fields["cfg_header"] = (lay["data_off"] + 8, 7)
        fields["cfg_port_len"] = (lay["data_off"] + 8 + 12, 2)
        inner = im(img)
        win = sorted({0, 0x3C, 0x40, 0x80, 0x84, 0x98, 0x98 + (240 if arch == "x64" else 224), lay["sec0_vsize"][0] - 8, lay["sec0_vsize"][0] + 32, lay["sec0_vsize"][0] + 72, lay["sec0_vsize"][0] + 112, lay["size_of_headers_value"], lay["export_dir_stamp"][0] - 4, lay["export_dir_stamp"][0] + 36, lay["data_off"], lay["data_off"] + 8, lay["data_off"] + 15, len(img) - 4, len(img)})
        if name.startswith("pe"):
            return om(inner), fields, {}, win, BEACON_EPS + [ep_from_bytes_all]
        stub = xorenc.CALL_STUB
        outer = xorenc.encode(inner, stub=stub)
        ofields = {"stub_first": (0, 1), "marker": (len(stub) - 3, 3), "nonce": (len(stub), 4), "size": (len(stub) + 4, 4), "first_chunk": (len(stub) + 8, 4)}
        owin = [0, len(stub) - 3, len(stub), len(stub) + 4, len(stub) + 8, len(stub) + 12] + [len(stub) + 8 + w for w in win]
        return om(outer), fields, ofields, sorted(set(owin)), BEACON_EPS
    if name == "guardrails":
        cfg = tlv.encode(RC.http_settings()[:6] + [(8, 3, b"h,/u".ljust(32, b"\x00"))])
        key = bytes(lcg(7, 3)) if G.is_primitive(bytes(lcg(7, 3))) else b"\x01\x02\x03\x04\x05\x06\x09"
        area, cb, g = G.protect(cfg, key, [(G.G_COMPUTER, b"\xab\xcd")])
        inner = im(area)
        fields = {"masked_cfg_first": (0, 4), "masked_cfg_mid": (3000, 2), "masked_cfg_last6": (G.CONFIG_SIZE - 6, 6), "guard_marker": (G.CONFIG_SIZE, 6), "guard_opt_len": (G.CONFIG_SIZE + 4, 2), "guard_val": (G.CONFIG_SIZE + 6, 2), "chk_option": (G.CONFIG_SIZE + 8, 2), "chk_type": (G.CONFIG_SIZE + 10, 2), "chk_len": (G.CONFIG_SIZE + 12, 2), "chk_val": (G.CONFIG_SIZE + 14, 4), "guard_term": (G.CONFIG_SIZE + 18, 2)}
        pre = bytes(lcg(100, seed + 2))
        outer = pre + inner + bytes(lcg(30, seed + 3))
        win = [0, 100, 106, 100 + G.CONFIG_SIZE - 6, 100 + G.CONFIG_SIZE, 100 + G.CONFIG_SIZE + 6, 100 + G.CONFIG_SIZE + 12, 100 + G.CONFIG_SIZE + 20, 100 + G.CONFIG_SIZE + G.GUARD_SIZE, len(outer)]
        return om(outer), fields, {}, win, [ep_from_bytes, ep_from_path]
    if name == "guardrails-early":  # the protected area starts at offset 0 / the guard marker lies early in the file
        cfg = tlv.encode([(1, 1, b"\x00\x00")])
        area, cb, g = G.protect(cfg, b"\x07\x01\x09", [(G.G_USER, b"\x00\x01")])
        inner = im(area)
        # only the tail of the masked configuration + the guard configuration: the marker sits at offset 50
        outer = inner[G.CONFIG_SIZE - 56 :]
        return om(outer), {}, {"marker_region": (50, 12)}, [0, 44, 50, 56, 62, 100, len(outer)], [ep_from_bytes, ep_from_path, ep_from_file]
    if name == "artifact":
        payload = bytes(lcg(64, seed + 4))
        pre = b"\xee" * 33
        hdr = struct.pack("<II", len(pre) + 16, len(payload)) + b"\x01\x02\x03\x04" + b"HINTHINT"
        outer = pre + hdr + bytes(p ^ (1 + i % 4) for i, p in enumerate(payload)) + b"\xee" * 5
        return om(im(outer)), {}, {"ak_offset": (33, 4), "ak_size": (37, 4), "ak_key": (41, 4), "ak_hints": (45, 8)}, [0, 33, 37, 41, 45, 53, len(outer) - 5, len(outer)], [ep_artifact]
    if name == "http-request":
        outer = RH.serialize_request(b"GET", b"/ptj/a;b", [(b"q", b"\x00\xff v"), (b"k", b"v")], [(b"Host", b"h.example"), (b"Cookie", b"a=b: c")], b"body\r\n\r\nmore")
        line_end = outer.index(b"\r\n")
        return om(im(outer)), {}, {"method": (0, 3), "sp1": (3, 1), "path_q": (outer.index(b"?"), 1), "pct": (outer.index(b"%"), 3), "sp2": (line_end - 9, 1), "version": (line_end - 8, 8), "crlf": (line_end, 2), "hdr_sep": (outer.index(b": "), 2), "blank": (outer.index(b"\r\n\r\n"), 4)}, list(range(0, len(outer) + 1)), [ep_http]
    if name == "http-response":
        outer = RH.serialize_response(200, b"OK", [(b"Content-Length", b"4"), (b"X", b"y")], b"\x00\x01\r\n")
        return om(im(outer)), {}, {"version": (0, 8), "status": (9, 3), "reason": (13, 2), "crlf": (15, 2), "blank": (outer.index(b"\r\n\r\n"), 4)}, list(range(0, len(outer) + 1)), [ep_http]
    raise ValueError(name)


SEEDS = ("rawblock", "plainblock", "pe-x86", "pe-x64", "pe-pre1000", "xor-x86", "guardrails", "guardrails-early", "artifact", "http-request", "http-response")
GUARD_WINDOW = list(range(6120, 6150)) + [0, 1, 5, 6, 100, 3000, 6000]


def alternatives(orig: bytes, endian):
    n = len(orig)
    v = int.from_bytes(orig, endian)
    mx = (1 << (8 * n)) - 1
    alts = [0, mx, mx >> 1, (mx >> 1) + 1, (v + 1) & mx, (v - 1) & mx, v ^ 1, v ^ (1 << (8 * n - 1)), 0x10 if n == 1 else (0x1000 & mx), (v << 1) & mx]
    out = []
    for a in alts:
        b = a.to_bytes(n, endian)
        if b != orig and b not in out:
            out.append(b)
    return out


def endian_for(seedname, layer, field):
    if seedname in ("pe-x86", "pe-x64", "xor-x86", "pe-pre1000") and layer == "inner" and not field.startswith("cfg_"):
        return "little"
    if seedname == "artifact" or (layer == "outer" and field in ("size", "nonce")):
        return "little"
    return "big"


def deviation_points(seedname, seed):
    data, fin, fout, win, eps = build_seed(seedname, seed)
    pts = []
    # inner/outer originals are needed to compute alternatives
    if fin:
        inner_orig = {}
        build_seed(seedname, seed, inner_mut=lambda b: inner_orig.setdefault("b", b) or b)
        ib = inner_orig["b"]
        for f, (off, size) in sorted(fin.items(), key=lambda kv: kv[1]):
            for alt in alternatives(ib[off : off + size], endian_for(seedname, "inner", f)):
                pts.append(("inner", f, off, alt.hex()))
    for f, (off, size) in sorted(fout.items(), key=lambda kv: kv[1]):
        for alt in alternatives(data[off : off + size], endian_for(seedname, "outer", f)):
            pts.append(("outer", f, off, alt.hex()))
    return pts


def apply_devs(seedname, seed, devs):
    def mut(layer):
        def f(b):
            b = bytearray(b)
            for lay, field, off, althex in devs:
                if lay == layer:
                    alt = bytes.fromhex(althex)
                    b[off : off + len(alt)] = alt
            return bytes(b)

        return f

    data, fin, fout, win, eps = build_seed(seedname, seed, inner_mut=mut("inner"), outer_mut=mut("outer"))
    return data, eps


def plan(tier, seed):
    ch = []
    for s in SEEDS:
        dparts = 6 if s == "pe-pre1000" else 1
        for dp in range(dparts):
            ch.append({"key": f"dev1/{s}" + (f"/{dp}" if dparts > 1 else ""), "kind": "dev", "seedname": s, "k": 1, "part": dp, "parts": dparts, "cost": 3000 if s.startswith(("pe", "xor")) else 600})
        parts = 8 if s.startswith(("pe", "xor", "guard")) else 2
        for p in range(parts):
            ch.append({"key": f"trunc/{s}/{p}", "kind": "trunc", "seedname": s, "part": p, "parts": parts, "cost": 1500 if s.startswith(("pe", "xor", "guard")) else 200})
        if BOUNDS[tier]["k"] >= 2 and s not in ("http-request", "http-response", "artifact"):
            for p in range(16):
                ch.append({"key": f"dev2/{s}/{p}", "kind": "dev", "seedname": s, "k": 2, "part": p, "parts": 16, "cost": 8000})
    ch.append({"key": "splice", "kind": "splice", "cost": 1500})
    for part in range(4):
        ch.append({"key": f"guard-marker-window/{part}", "kind": "guard_window", "part": part, "cost": 1500})
    for hi in range(0, 256, 16):
        ch.append({"key": f"short/bytes/{hi:02x}", "kind": "short_bytes", "hi": hi, "cost": 1200})
    ch.append({"key": "short/alpha", "kind": "short_alpha", "cost": 2500})
    ch.append({"key": "ua-eof", "kind": "ua_eof", "cost": 100})
    for part in range(5):
        ch.append({"key": f"wellformed/{part}", "kind": "wellformed", "part": part, "cost": 900})
    for i in range(len(HTTP_TOKENS)):
        ch.append({"key": f"http/tokens/{i}", "kind": "http_tokens", "first": i, "cost": 3 * len(HTTP_TOKENS) ** (BOUNDS[tier]["http_tokens"] - 1) // 10})
    return ch


def chunk_dev(chunk, acc):
    s = chunk["seedname"]
    pts = deviation_points(s, acc.seed)
    k = chunk["k"]
    n = 0
    first = None
    if k == 1:
        data, eps = apply_devs(s, acc.seed, ())
        acc.states += 1
        run_input(acc, eps, data, {"kind": "dev", "seedname": s, "devs": [], "seed": acc.seed}, (s, ()), nontrivial=True)
        intact, intact_eps = data, eps
        first = snapshot(eps, data)
    for devs in deviation_sets(pts, k):
        if len(devs) != k:
            continue
        if k == 2 and (devs[0][1] == devs[1][1]):
            continue
        n += 1
        if n % chunk["parts"] != chunk["part"]:
            continue
        if k == 2 and n % 7 not in (0, 3):
            # pairs: two sevenths of the field x field x alternative product are run (stated in the evidence)
            acc.capped("k=2: 2/7 of all (field, alternative) pairs are executed")
            continue
        acc.states += 1
        data, eps = apply_devs(s, acc.seed, devs)
        run_input(acc, eps, data, {"kind": "dev", "seedname": s, "devs": [list(d) for d in devs], "seed": acc.seed}, (s, devs))
    if first is not None:
        compare_snapshots(acc, first, snapshot(intact_eps, intact), {"kind": "dev", "seedname": s, "devs": [], "seed": acc.seed, "after": "all single deviations"})
    acc.sample({"seed_artefact": s, "deviation_points": len(pts), "k": k, "example": list(pts[len(pts) // 2]) if pts else None})


def chunk_trunc(chunk, acc):
    s = chunk["seedname"]
    data, fin, fout, win, eps = build_seed(s, acc.seed)
    mode = BOUNDS[acc.tier]["trunc"]
    cuts = set()
    for w in win:
        for d in range(-2, 3):
            if 0 <= w + d <= len(data):
                cuts.add(w + d)
    if mode == "all":
        cuts |= set(range(0, len(data) + 1))
    else:
        cuts |= set(range(0, len(data) + 1, 64))
    cuts = sorted(cuts)
    # the intact input first (and once more at the end): truncated copies share a long prefix with it
    run_input(acc, eps, data, {"kind": "trunc", "seedname": s, "cut": len(data), "seed": acc.seed}, (s, "intact"))
    first = snapshot(eps, data)
    for i, cut in enumerate(cuts):
        if i % chunk["parts"] != chunk["part"]:
            continue
        acc.states += 1
        run_input(acc, eps, data[:cut], {"kind": "trunc", "seedname": s, "cut": cut, "seed": acc.seed}, (s, cut), nontrivial=cut > 0)
    compare_snapshots(acc, first, snapshot(eps, data), {"kind": "trunc", "seedname": s, "cut": len(data), "seed": acc.seed, "after": "truncated copies"})
    if mode != "all":
        acc.count("truncation_points_not_run", len(data) + 1 - len(cuts))
    acc.sample({"seed_artefact": s, "length": len(data), "truncation_points": len(cuts), "windows": win[:8]})


def chunk_splice(chunk, acc):
    built = {s: build_seed(s, acc.seed) for s in ("rawblock", "pe-x86", "pe-x64", "xor-x86", "guardrails", "artifact")}
    for a, b in itertools.permutations(built, 2):
        da, db = built[a][0], built[b][0]
        for fa in (0.25, 0.5):
            acc.states += 1
            data = da[: int(len(da) * fa)] + db[int(len(db) * fa) :]
            eps = [ep_from_bytes, ep_xor_from_file, ep_artifact] + PE_EPS[:3]
            run_input(acc, eps, data, {"kind": "splice", "a": a, "b": b, "frac": fa, "seed": acc.seed}, (a, b, fa))
    acc.sample({"splices": "first quarter/half of one seed + remainder of another", "pairs": 30})


def chunk_guard_window(chunk, acc):
    """A guard marker (last 6 bytes of a masked configuration + first 6 of the masked guard area) placed so that the
    marker starts at every offset around 6138 - the first offset at which a configuration fits in front of it."""
    cfg = tlv.encode([(1, 1, b"\x00\x00")])
    area, cb, g = G.protect(cfg, b"\x07\x01\x09", [(G.G_USER, b"\x00\x01")])
    tail = area[G.CONFIG_SIZE - 6 :]  # 6 marker bytes of the configuration + the whole guard area
    for i, off in enumerate(GUARD_WINDOW):
        if i % 4 != chunk["part"]:
            continue
        for fill in ("lcg", "area"):
            pre = bytes(lcg(off, acc.seed + off)) if fill == "lcg" else area[max(0, G.CONFIG_SIZE - 6 - off) : G.CONFIG_SIZE - 6][-off:] if off else b""
            data = pre.rjust(off, b"\x55")[:off] + tail
            acc.states += 1
            run_input(acc, [ep_from_bytes, ep_from_path, ep_from_file], data, {"kind": "guard_window", "offset": off, "fill": fill, "seed": acc.seed}, (off, fill))
    acc.sample({"guard_marker_offsets": "6120..6149 and a few small ones", "entry_points": ["from_bytes", "from_path", "from_file"]})


def chunk_short_bytes(chunk, acc):
    eps_all = [ep_from_bytes, ep_block, ep_xor_from_file, ep_artifact, ep_http]
    for a in range(chunk["hi"], chunk["hi"] + 16):
        acc.states += 1
        run_input(acc, eps_all + PE_EPS + [ep_from_bytes_all], bytes([a]), {"kind": "short", "data": f"{a:02x}"}, (a,))
        # every length 1..12 of a constant and of a varied filler, through the all-keys retry as well
        for n in range(2, 13):
            for d in (bytes([a]) * n, bytes((a + i) % 256 for i in range(n))):
                run_input(acc, [ep_from_bytes_all, ep_from_file], d, {"kind": "short", "data": d.hex()}, ("len", a, n, d[-1]))
        for b in range(256):
            d = bytes([a, b])
            run_input(acc, eps_all, d, {"kind": "short", "data": d.hex()}, (a, b))
    if chunk["hi"] == 0:
        run_input(acc, eps_all + PE_EPS + [ep_from_bytes_all, ep_from_path], b"", {"kind": "short", "data": ""}, "empty", nontrivial=False)
    acc.sample({"inputs": f"all 1- and 2-byte strings starting {chunk['hi']:02x}..{chunk['hi'] + 15:02x}", "entry_points": [f.__name__ for f in eps_all]})


def chunk_short_alpha(chunk, acc):
    alpha = (0x00, 0x01, 0x02, 0x2E, 0x69, ord("M"), ord("Z"), 0xFF)
    n = BOUNDS[acc.tier]["short_alpha_len"]
    for w in sequences(alpha, n + 2, 3):
        d = bytes(w)
        acc.states += 1
        eps = [ep_block, ep_artifact, ep_http] + ([ep_from_bytes, ep_xor_from_file] + PE_EPS[:2] if len(d) <= n else [])
        run_input(acc, eps, d, {"kind": "short", "data": d.hex()}, d)
    acc.sample({"alphabet": [f"{a:02x}" for a in alpha], "max_len": n + 2})


HTTP_TOKENS = (b"GET", b"HTTP/1.1", b" ", b"\t", b"\r\n", b"\n", b":", b": ", b"/x", b"200", b"?", b"=", b"%", b"A", b"\x00", b"\xff")
HTTP_PREFIXES = (b"", b"GET /x HTTP/1.1\r\n", b"HTTP/1.1 200 OK\r\n")


def chunk_http_tokens(chunk, acc):
    """Every string of at most n HTTP-level tokens (whitespace, line ends, separators, a verb, a version, binary bytes),
    on its own and behind a valid request line / status line (so that the header and body parsing is reached)."""
    n = BOUNDS[acc.tier]["http_tokens"]
    first = HTTP_TOKENS[chunk["first"]]
    for rest in sequences(HTTP_TOKENS, n - 1):
        tail = first + b"".join(rest)
        acc.states += 1
        for pi, pre in enumerate(HTTP_PREFIXES):
            d = pre + tail
            run_input(acc, [ep_http], d, {"kind": "short", "data": d.hex(), "entry_only": "ep_http"}, (pi, chunk["first"], rest))
    acc.sample({"tokens": [t.decode("latin-1") for t in HTTP_TOKENS], "max_tokens": n, "prefixes": [p.decode() for p in HTTP_PREFIXES]})


def chunk_wellformed(chunk, acc):
    """Well-formed payloads the constructors must accept: a XorEncoded stage whose configuration is stored under each
    single-byte key (00 included), and a raw block whose header starts at every offset around the read-buffer
    boundaries."""
    blk = tlv.encode(RC.http_settings()[:6] + [(8, 3, b"h,/u".ljust(32, b"\x00")), (37, 2, b"\x00\x00\x00\x01")]).ljust(600, b"\x00")
    if chunk["part"] == 0:
        for key in (0x00, 0x2E, 0x69, 0xAF):
            for arch in ("x86", "x64"):
                img = refpe.build_pe(arch=arch, data=b"\x11" * 8 + obf(blk, key) + b"\x22" * 8, append=b"TAIL")
                enc = xorenc.encode(img, stub=xorenc.CALL_STUB)
                acc.states += 1
                eps = [ep_from_bytes_all, ep_from_path_all] if key == 0xAF else [ep_from_bytes, ep_from_path, ep_from_bytes_all]
                for label, data in (("pe", img), ("xor", enc)):
                    run_input(acc, eps + [ep_xor_from_file] * (label == "xor") + PE_EPS[:2], data, {"kind": "wellformed", "container": label, "arch": arch, "key": key, "seed": acc.seed}, ("wf", label, arch, key), expect_ok=True)
        # a stage without end-of-stub marker whose nonce sits at the last offsets of the documented 1024-byte range:
        # only the size field can locate it
        img = refpe.build_pe(arch="x86", data=b"\x11" * 8 + obf(blk) + b"\x22" * 8)
        for n in (1000, 1015, 1016, 1017, 1018, 1019, 1020, 1021, 1022, 1023):
            acc.states += 1
            enc = xorenc.encode(img, stub=b"\x90" * n)
            run_input(acc, [ep_xor_from_file, ep_from_bytes], enc, {"kind": "wellformed", "container": "xor-size-only", "arch": "x86", "key": n, "seed": acc.seed}, ("wf-size-only", n), expect_ok=True)
        # two Guardrails areas, the first one with a wrong checksum (never unmasked): the reported guard settings are
        # those of the area whose configuration is returned
        cfg = tlv.encode(RC.http_settings()[:6] + [(8, 3, b"h,/u".ljust(32, b"\x00"))])
        bad_area, _, _ = G.protect(cfg, b"\x07\x01\x09\x02", [(G.G_USER, b"\x12\x34"), (G.G_DOMAIN, b"\x00\x01")], checksum_delta=2)
        good_area, _, _ = G.protect(cfg, b"\x11\x22\x33", [(G.G_COMPUTER, b"\xab\xcd")])
        for filler in (b"", b"\x90" * 37):
            data = b"\x55" * 16 + bad_area + filler + good_area + b"\x55" * 9
            acc.states += 1
            run_input(acc, [ep_guard_options], data, {"kind": "wellformed", "container": "two-guard-areas", "arch": "-", "key": len(filler), "seed": acc.seed}, ("wf-guards", len(filler)), expect_ok=True)
    else:
        lo = {1: 8170, 2: 16360, 3: 24560, 4: 32760}[chunk["part"]]
        for off in range(lo, lo + 45):
            acc.states += 1
            data = b"\x90" * off + obf(blk) + b"\x90" * 11
            run_input(acc, [ep_from_bytes, ep_from_path], data, {"kind": "wellformed", "offset": off, "seed": acc.seed}, ("wf-off", off), expect_ok=True)
    acc.sample({"wellformed": "XorEncoded / PE stage with the block under keys 00, 2e, 69, af; raw block at offsets 8170..8214, 16360.., 24560.., 32760..", "oracle": "no ValueError"})


def chunk_ua_eof(chunk, acc):
    """The over-long User-Agent whose continuation reaches the end of the data (no NUL anywhere after it)."""
    pre = tlv.rec(1, 1, b"\x00\x00")
    for cont in (b"", b"x", b"0123456789"):
        for tail in (b"", b"\x00", b"\x00\x00"):
            blk = pre + tlv.rec(9, 3, UA128) + cont + tail
            acc.states += 1
            run_input(acc, [ep_block], blk, {"kind": "short", "data": blk.hex(), "entry_only": "ep_block"}, ("ua", cont, tail))
            run_input(acc, [ep_from_bytes], obf(blk), {"kind": "short", "data": obf(blk).hex(), "entry_only": "ep_from_bytes"}, ("ua-obf", cont, tail))
    acc.sample({"input": "protocol setting + 128-byte User-Agent without NUL + continuation reaching EOF"})


def run_chunk(chunk, acc):
    globals()["chunk_" + chunk["kind"]](chunk, acc)


def finish(summary):
    summary.setdefault("notes", []).append("exhaustive_scope: deviation sets and structural truncation windows are complete; quick runs every 64th truncation point outside the windows")


def replay(case):
    from vmc.runner import Acc

    a = Acc("replay", "quick", case.get("seed", 0))
    if case["kind"] == "dev":
        data, eps = apply_devs(case["seedname"], case["seed"], [tuple(d) for d in case["devs"]])
    elif case["kind"] == "trunc":
        data, fin, fout, win, eps = build_seed(case["seedname"], case["seed"])
        data = data[: case["cut"]]
    elif case["kind"] == "guard_window":
        cfg = tlv.encode([(1, 1, b"\x00\x00")])
        area, cb, g = G.protect(cfg, b"\x07\x01\x09", [(G.G_USER, b"\x00\x01")])
        tail = area[G.CONFIG_SIZE - 6 :]
        off = case["offset"]
        pre = bytes(lcg(off, case["seed"] + off)) if case["fill"] == "lcg" else area[max(0, G.CONFIG_SIZE - 6 - off) : G.CONFIG_SIZE - 6][-off:] if off else b""
        data = pre.rjust(off, b"\x55")[:off] + tail
        eps = [ep_from_bytes, ep_from_path, ep_from_file]
    elif case["kind"] == "wellformed":
        chunk_wellformed({"part": 0 if "container" in case else {8: 1, 16: 2, 24: 3, 32: 4}[case["offset"] // 1000]}, a)
        v = next((v for v in a.violations if all(v["case"].get(k) == case.get(k) for k in ("container", "arch", "key", "offset", "entry"))), None)
        return {"ok": v is None, "expected": v["expected"] if v else None, "observed": v["observed"] if v else None}
    elif case["kind"] == "splice":
        da = build_seed(case["a"], case["seed"])[0]
        db = build_seed(case["b"], case["seed"])[0]
        data = da[: int(len(da) * case["frac"])] + db[int(len(db) * case["frac"]) :]
        eps = [ep_from_bytes, ep_xor_from_file, ep_artifact] + PE_EPS[:3]
    else:
        data = bytes.fromhex(case["data"])
        eps = list(ALL_EPS.values())
    if case.get("entry") == "ep_from_bytes+ep_from_path":
        run_input(a, [ep_from_bytes, ep_from_path], data, {k: v for k, v in case.items() if k != "entry"}, "replay")
        v = a.violations[0] if a.violations else None
        return {"ok": v is None, "expected": v["expected"] if v else None, "observed": v["observed"] if v else None}
    if "entry" in case:
        eps = [ALL_EPS[case["entry"]]]
    elif "entry_only" in case:
        eps = [ALL_EPS[case["entry_only"]]]
    outs = [run_ep(a, fn, data, case) for fn in eps]
    v = a.violations[0] if a.violations else None
    return {"ok": v is None, "expected": "documented result or ValueError", "observed": v["observed"] if v else outs}


def standalone(case):
    return None
