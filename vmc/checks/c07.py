"""C07 - End-to-end: traffic produced by a beacon is decoded to the packets sent (form H - the main state machine).

System under exploration: the real HttpBeaconClient (get_task / send_callback) talks through an in-process transport
(a real httpx.Request is built, serialised to wire bytes and logged) to a *reference team server* (vmc/ref: own HTTP
parser, Malleable decoder/encoder, raw-RSA PKCS#1 unpadding, pure-Python AES). A reference beacon adds multi-packet
callbacks. Fresh real C2Http decoders (one per key-material variant) then consume the logged raw bytes.
"""

from __future__ import annotations

import hashlib
import random
import struct

from vmc.checks.c06 import ScriptedRandom
from vmc.checks.c19 import Seams
from vmc.kernel import sequences
from vmc.ref import aes as RA
from vmc.ref import config as RC
from vmc.ref import http as RH
from vmc.ref import keys as K
from vmc.ref import malleable as M
from vmc.runner import lcg

ID = "C07"
LEVEL = "model_checking"
RULE = (
    "state = event history of one beacon session (x the client's choice of check-in URI); events = {check-in answered with no/small/1KB task, callback by the "
    "library client, callback with 2 and 3 packets by the reference beacon, unrelated request (wrong verb / wrong "
    "URI), related request under a longer URI with the same prefix}; every history up to the depth bound (starting "
    "with a check-in) x every configuration (default + every single deviation of metadata/id/output/server-output "
    "program, verbs, URIs, static decorations) is executed for real and the wire log is decoded by a fresh C2Http per "
    "key variant (RSA only, aes_rand, aes_rand+RSA, AES+HMAC, AES without HMAC verification). Oracle: packets yielded "
    "== packets sent, in order. non-trivial = the history carries at least one task or callback"
    ". Added events: a task with command id 6, a batch of callback messages encoded by the library's own post transform, a changed self-description between check-ins; configurations with base64 data in the URI / GET callbacks; beacon-id and reconfigured-client families; a consumer that takes one packet per message. "
)
ASSUMPTIONS = [
    "one session per decoder (external session tracking is documented)",
    "placements in headers, parameters and URIs use printable encodings, as the statement says; bodies may be binary",
    "a session starts with a check-in (the server learns the session keys from it)",
    "get and post are distinguishable by verb or URI prefix (configurations where both coincide are not generated)",
]
BOUNDS = {"quick": {"depth_default": 4, "depth_dev": 3}, "thorough": {"depth_default": 5, "depth_dev": 4}}

EVENTS = ("C0", "C1", "C2", "C6", "P1", "P1e", "P2", "P3", "B2", "Minfo", "Uverb", "Uuri", "Rprefix")
VARIANTS = ("rsa", "aes_rand", "aes_rand+rsa", "aes+hmac", "aes-noverify", "rsa/first-packet-only")

GET_PROGS = {
    "default": RC.DEFAULT_GET,
    "netbios-param": [("BUILD", 0), ("NETBIOS", None), ("PREPEND", b"SESSION="), ("PARAMETER", b"q")],
    "b64url-uri": [("BUILD", 0), ("BASE64URL", None), ("URI_APPEND", None)],
    "b64-uri": [("BUILD", 0), ("BASE64", None), ("URI_APPEND", None)],  # standard alphabet: '+', '/' and '=' inside the path
    "mask-b64url-header": [("_HEADER", b"Accept: */*"), ("BUILD", 0), ("MASK", None), ("BASE64URL", None), ("PREPEND", b"sid="), ("APPEND", b";x"), ("HEADER", b"Cookie")],
    "netbiosu-static": [("_HEADER", b"X-A: b"), ("_PARAMETER", b"k=v"), ("_HOSTHEADER", b"Host: cdn.example"), ("BUILD", 0), ("NETBIOSU", None), ("HEADER", b"X-Session")],
    "b64-param": [("BUILD", 0), ("BASE64", None), ("PARAMETER", b"data")],
    "b64-body": [("BUILD", 0), ("BASE64", None), ("PRINT", None)],
}
POST_PROGS = {
    "default": RC.DEFAULT_POST,
    "mask-header/mask-netbiosu-body": [("BUILD", 0), ("MASK", None), ("BASE64URL", None), ("PREPEND", b"id="), ("HEADER", b"Cookie"), ("BUILD", 1), ("MASK", None), ("NETBIOSU", None), ("PRINT", None)],
    "netbios-uri/b64-body": [("BUILD", 0), ("NETBIOS", None), ("URI_APPEND", None), ("BUILD", 1), ("BASE64", None), ("PRINT", None)],
    "param/binary-body": [("_PARAMETER", b"v=1"), ("BUILD", 0), ("PARAMETER", b"id"), ("BUILD", 1), ("MASK", None), ("PRINT", None)],
    "b64url-param/b64url-header": [("BUILD", 0), ("BASE64URL", None), ("PARAMETER", b"i"), ("BUILD", 1), ("BASE64URL", None), ("PREPEND", b"o="), ("HEADER", b"X-Out")],
    "body-id/param-out": [("BUILD", 0), ("NETBIOSU", None), ("PRINT", None), ("BUILD", 1), ("NETBIOS", None), ("APPEND", b"z"), ("PARAMETER", b"o")],
}
RECOVER_PROGS = {
    "default": [("PRINT", None)],
    "mask-b64url-pre-app": [("PRINT", None), ("APPEND", 10), ("PREPEND", 84), ("BASE64URL", None), ("MASK", None)],
    "netbios": [("PRINT", None), ("NETBIOS", None)],
    "b64-app0": [("PRINT", None), ("APPEND", 0), ("BASE64", None)],
    "netbiosu-mask-pre1": [("PRINT", None), ("PREPEND", 1), ("NETBIOSU", None), ("MASK", None)],
}
OTHER = {
    "verbs-swapped": {"verb_get": b"POST", "verb_post": b"GET"},
    "verbs-put": {"verb_get": b"GET", "verb_post": b"PUT"},
    "uris-many": {"domains": b"h.example,/a,h.example,/bb,h.example,/ccc"},
    "uris-prefix": {"domains": b"h.example,/api,h.example,/api/v2"},
    "submit-shares-prefix": {"domains": b"h.example,/sub", "submit_uri": b"/submit.php", "verb_post": b"POST"},
    "host-header": {"host_header": b"Host: front.example\r\n"},
}


def config_menu():
    m = [("default", {})]
    m += [(f"get:{k}", {"get": v}) for k, v in GET_PROGS.items() if k != "default"]
    m += [(f"post:{k}", {"post": v}) for k, v in POST_PROGS.items() if k != "default"]
    m += [(f"recover:{k}", {"recover": v}) for k, v in RECOVER_PROGS.items() if k != "default"]
    m += [(f"other:{k}", v) for k, v in OTHER.items()]
    # two cooperating settings: uri-append data behind URIs that are prefixes of one another, in both list orders
    m.append(("combo:uri-append+prefix-uris", {"get": GET_PROGS["b64url-uri"], "domains": b"h.example,/api,h.example,/api/v2"}))
    m.append(("combo:uri-append+prefix-uris-rev", {"get": GET_PROGS["b64url-uri"], "domains": b"h.example,/api/v2,h.example,/api"}))
    # check-ins and callbacks on the SAME URI, told apart by the verb alone
    m.append(("combo:same-uri-different-verbs", {"domains": b"h.example,/api,h.example,/news", "submit_uri": b"/api", "verb_get": b"GET", "verb_post": b"POST"}))
    m.append(("combo:same-uri-different-verbs-2", {"domains": b"h.example,/news,h.example,/api", "submit_uri": b"/api", "verb_get": b"GET", "verb_post": b"PUT"}))
    m.append(("combo:post-uri-append+submit-prefix", {"post": POST_PROGS["netbios-uri/b64-body"], "domains": b"h.example,/s", "submit_uri": b"/s/ubmit", "verb_get": b"GET", "verb_post": b"POST"}))
    # callbacks sent with the GET verb, their output in the path in the standard base64 alphabet
    m.append(("combo:post-get-verb+b64-uri-output", {"post": [("BUILD", 0), ("PARAMETER", b"id"), ("BUILD", 1), ("BASE64", None), ("URI_APPEND", None)], "verb_post": b"GET", "submit_uri": b"/submit.php"}))
    return m


def distinguishable(kw):
    """A merged configuration is only meaningful when a request can be routed: different verbs, or URIs none of which
    is a prefix of the other side's."""
    vg, vp = kw.get("verb_get", b"GET"), kw.get("verb_post", b"POST")
    if vg != vp:
        return True
    get_uris = kw.get("domains", b"c2.example.com,/ptj,c3.example.com,/load").split(b",")[1::2]
    sub = kw.get("submit_uri", b"/submit.php")
    return not any(sub.startswith(u) or u.startswith(sub) for u in get_uris)


def plan(tier, seed):
    ch = []
    for name, kw in config_menu():
        depth = BOUNDS[tier]["depth_default" if name == "default" else "depth_dev"]
        for first in ("C0", "C1", "C2"):
            for second in (None,) + EVENTS:
                if depth < 2 and second is not None:
                    continue
                ch.append({"key": f"{name}/{first}/{second}", "kind": "hist", "config": name, "first": first, "second": second, "cost": len(EVENTS) ** max(0, depth - 2)})
    ch.append({"key": "beacon-ids", "kind": "ids", "cost": 200})
    if tier == "thorough":
        menu = config_menu()
        for i, (n1, k1) in enumerate(menu):
            for n2, k2 in menu[i + 1 :]:
                if n1.split(":")[0] == n2.split(":")[0] or n1 == "default":
                    continue
                if not distinguishable({**k1, **k2}):
                    continue  # (stated assumption: check-ins and callbacks differ in verb or in URI prefix)
                ch.append({"key": f"pair/{n1}+{n2}", "kind": "pair", "a": n1, "b": n2, "cost": 30})
    return ch


# ------------------------------------------------------------------------------------------------------------------
# reference team server + reference beacon
# ------------------------------------------------------------------------------------------------------------------


def ref_prog(steps, b0):
    out = []
    for op, arg in steps:
        if op == "BUILD":
            out.append(("BUILD", {0: b0, 1: "output"}[arg]))
        else:
            out.append((op, arg))
    return out


_LF_EPOCHS = {}


def _epoch_with_line_end(keys, cmd, tdata, n):
    """The n-th timestamp >= 0x61000000 for which ciphertext + signature of the task end in 0x0a or 0x0d."""
    k = (keys[0], keys[1], cmd, tdata)
    found = _LF_EPOCHS.setdefault(k, [])
    e = found[-1] + 1 if found else 0x61000000
    while len(found) < n:
        tp = struct.pack(">IIII", e, len(tdata) + 8, cmd, len(tdata)) + tdata
        ct, sig = RA.encrypt_packet(tp, keys[0], keys[1])
        if sig[-1] in (0x0A, 0x0D):
            found.append(e)
        e += 1
    return found[n - 1]


class Session:
    """One execution: real client <-> reference server, wire log, ground-truth packet log."""

    def __init__(self, cfg_kw, seed, uri_choice=0, beacon_id=0x1234):
        from dissect.cobaltstrike import beacon

        self.seed = seed
        self.uri_choice = uri_choice
        self.beacon_id = beacon_id
        self.kw = dict(cfg_kw)
        self.priv = K.key(1024, seed % 2)
        self.block = RC.http_block(key_which=seed % 2, **cfg_kw)
        self.cfg = beacon.BeaconConfig(self.block)
        self.get_prog = ref_prog(cfg_kw.get("get", RC.DEFAULT_GET), "metadata")
        self.post_prog = ref_prog(cfg_kw.get("post", RC.DEFAULT_POST), "id")
        self.recover = cfg_kw.get("recover", RC.DEFAULT_RECOVER)
        self.server_steps = M.server_steps_from_recover(self.recover)
        dom = cfg_kw.get("domains", b"c2.example.com,/ptj,c3.example.com,/load").split(b",")
        self.get_uris = list(dict.fromkeys(dom[1::2]))
        self.submit_uri = cfg_kw.get("submit_uri", b"/submit.php")
        self.verb_get = cfg_kw.get("verb_get", b"GET")
        self.verb_post = cfg_kw.get("verb_post", b"POST")
        self.wire = []  # (raw bytes, [ground-truth packets], kind)
        self.keys = None
        self.pending_task = None
        self.task_no = 0
        self.interop_errors = []
        self.client = None
        self.counter = 1000

    # ---- server side -------------------------------------------------------------------------------------------
    def server_handle(self, raw):
        req = RH.parse(raw)
        is_get = req["method"] == self.verb_get and any(req["uri"].startswith(u) for u in self.get_uris)
        is_post = req["method"] == self.verb_post and req["uri"].startswith(self.submit_uri)
        if is_get and is_post:
            is_post = False  # only possible when verbs coincide too, which is not generated
        if is_get:
            base = max((u for u in self.get_uris if req["uri"].startswith(u)), key=len)
            data = M.decode_message(self.get_prog, req, base_uri=base)
            blob = data["metadata"]
            em = pow(int.from_bytes(blob, "big"), self.priv.d, self.priv.n).to_bytes(128, "big")
            assert em[:2] == b"\x00\x02", "PKCS#1 block type"
            pt = em[em.index(b"\x00", 2) + 1 :]
            magic, size = struct.unpack(">II", pt[:8])
            assert magic == 0xBEEF and size == len(pt) - 8
            aes_rand = pt[8:24]
            self.keys = RA.derive_keys(aes_rand)
            fields = {"bid": struct.unpack(">I", pt[28:32])[0], "pid": struct.unpack(">I", pt[32:36])[0], "aes_rand": aes_rand, "info": pt[59:]}
            truth = [("metadata", fields)]
            body_plain = b""
            resp_truth = []
            if self.pending_task is not None:
                cmd, tdata = self.pending_task[:2]
                # (the small task C1 is always the very same packet - same second, same arguments - so that two of
                # them in one session are byte-identical on the wire; the other tasks carry increasing timestamps)
                epoch = self.pending_task[2] if len(self.pending_task) > 2 else 0x60000000 + self.task_no
                self.pending_task = None
                self.task_no += 1
                if cmd == 6:
                    # the command-6 task gets a timestamp for which the encrypted packet ENDS in a CR or LF byte (the
                    # n-th such timestamp for the n-th such task of the session), so that response bodies ending in
                    # line-end bytes occur in every session that contains one - not once in 128 by chance
                    self.lf_tasks = getattr(self, "lf_tasks", 0) + 1
                    epoch = _epoch_with_line_end(self.keys, cmd, tdata, self.lf_tasks)
                tp = struct.pack(">IIII", epoch, len(tdata) + 8, cmd, len(tdata)) + tdata
                ct, sig = RA.encrypt_packet(tp, self.keys[0], self.keys[1])
                body_plain = ct + sig
                resp_truth = [("task", epoch, cmd, tdata)]
            nmask = sum(1 for op, _ in self.server_steps if op == "MASK")
            body = M.encode_steps(self.server_steps, body_plain, masks=iter([bytes(lcg(4, self.seed + self.task_no + 9))] * nmask), b64url_pad=False, filler=0x5A)
            return truth, body, resp_truth
        if is_post:
            data = M.decode_message(self.post_prog, req, base_uri=self.submit_uri)
            stream = data["output"]
            pkts = []
            while stream:
                n = struct.unpack(">I", stream[:4])[0]
                ct, sig = stream[4 : 4 + n - 16], stream[4 + n - 16 : 4 + n]
                stream = stream[4 + n :]
                assert RA.sign(self.keys[1], ct) == sig, "callback signature"
                p = RA.cbc_decrypt(self.keys[0], b"abcdefghijklmnop", ct)
                counter, size, typ = struct.unpack(">III", p[:12])
                pkts.append(("callback", counter, typ, p[12 : 12 + size]))
            assert data["id"] == str(self.client.beacon_id).encode(), ("id", data["id"])
            return pkts, b"", []
        raise AssertionError(f"server cannot route {req['method']} {req['uri']}")

    # ---- transport ----------------------------------------------------------------------------------------------
    def fake_request(self, method, url, headers=None, params=None, content=None, verify=None):
        import httpx

        req = httpx.Request(method, url, headers=headers, params=params, content=content)
        m = req.method if isinstance(req.method, bytes) else req.method.encode()
        raw = m + b" " + req.url.raw_path + b" HTTP/1.1\r\n" + b"".join(k + b": " + v + b"\r\n" for k, v in req.headers.raw) + b"\r\n" + req.content
        try:
            truth, body, resp_truth = self.server_handle(raw)
        except Exception as e:  # noqa
            self.interop_errors.append(f"reference server cannot decode the library client's request: {type(e).__name__}: {e}")
            self.wire.append((raw, None, "client-request"))
            return httpx.Response(500, content=b"", request=req)
        self.wire.append((raw, truth, "client-request"))
        resp_raw = RH.serialize_response(200, b"OK", [(b"Content-Type", b"application/octet-stream"), (b"Content-Length", str(len(body)).encode())], body)
        self.wire.append((resp_raw, resp_truth, "response-to-" + ("get" if truth and truth[0][0] == "metadata" else "post")))
        return httpx.Response(200, content=body, request=req)

    # ---- reference beacon: multi-packet callback -------------------------------------------------------------
    def ref_callback(self, npackets):
        pkts = []
        stream = b""
        for i in range(npackets):
            self.counter += 1
            data = bytes(lcg((7, 16, 40, 0, 3)[(i + npackets + len(self.wire)) % 5], self.seed + self.counter))
            typ = (0, 30, 32)[i % 3]
            plain = struct.pack(">III", self.counter, len(data), typ) + data
            ct, sig = RA.encrypt_packet(plain, self.keys[0], self.keys[1])
            stream += struct.pack(">I", len(ct) + 16) + ct + sig
            pkts.append(("callback", self.counter, typ, data))
        nmask = sum(1 for op, _ in self.post_prog if op == "MASK")
        msg = M.encode_message(self.post_prog, {"id": str(self.client.beacon_id).encode(), "output": stream}, {"uri": self.submit_uri, "params": {}, "headers": {b"User-Agent": b"ref-beacon", b"Host": b"h.example"}, "body": b""}, masks=iter([b"\x13\x57\x9b\xdf"] * nmask), b64url_pad=False)
        raw = RH.serialize_request(self.verb_post, msg["uri"], list(msg["params"].items()), list(msg["headers"].items()), msg["body"])
        self.wire.append((raw, pkts, "refbeacon-request"))

    # ---- events -------------------------------------------------------------------------------------------------
    def start(self):
        from dissect.cobaltstrike import client as lc

        self.seams = Seams()
        self.seams.__enter__()
        self.rand = ScriptedRandom(self.seed + 100)
        self.rand.__enter__()
        self.real_request = lc.httpx.request
        lc.httpx.request = self.fake_request
        self.client = lc.HttpBeaconClient()
        if getattr(self, "prerun_id", None) is not None:
            # the same client object was configured for another beacon id before (same configuration object)
            self.client.run(self.cfg, dry_run=True, beacon_id=self.prerun_id, pid=999, user="other", computer="OTHER-PC", process="o.exe", internal_ip="10.0.0.8", arch="x86")
        self.client.run(self.cfg, dry_run=True, beacon_id=self.beacon_id, pid=4321, user="user", computer="WIN-PC", process="p.exe", internal_ip="10.0.0.7", arch="x64")
        # the client's random.choice of its check-in URI is an environment answer: enumerate it
        uris = self.client.bconfig.uris
        self.client.get_uri = uris[self.uri_choice % len(uris)]
        self.client.task_url = self.client.base_url + self.client.get_uri

    def stop(self):
        from dissect.cobaltstrike import client as lc

        lc.httpx.request = self.real_request
        self.rand.__exit__()
        self.seams.__exit__()

    def event(self, ev):
        if ev in ("C0", "C1", "C2", "C6"):
            # C6: command id 6 (COMMAND_NOOP alias COMMAND_KEYLOG_START) - the client's get_task() skips it, the
            # traffic decoder must still report the packet that was sent
            self.pending_task = {"C0": None, "C1": (32, b"", 0x5FFFFFF0), "C2": (53, bytes(lcg(1000, self.seed + 3))), "C6": (6, b"six!")}[ev]
            expected = None if ev in ("C0", "C6") else self.pending_task[:2]
            t = self.client.get_task()
            got = None if t is None else (t.command.value, bytes(t.data))
            if got != expected:
                self.interop_errors.append(f"get_task() returned {got!r:.80}, the server sent {expected!r:.80}")
            # what went over the wire is the beacon's self-description as it is now
            last = next((w for w in reversed(self.wire) if w[2] == "client-request" and w[1] and w[1][0][0] == "metadata"), None)
            if last is not None and not self.interop_errors:
                sent, now = last[1][0][1], self.client.metadata
                if (sent["bid"], sent["pid"], sent["info"]) != (now.bid, now.pid, bytes(now.info)):
                    self.interop_errors.append(f"stale metadata: the check-in carried info {sent['info']!r:.60}, the client's metadata says {bytes(now.info)!r:.60}")
        elif ev == "P1e":
            from dissect.cobaltstrike.client import BeaconCallback

            data = b"" if len(self.wire) % 2 else b"ok"
            self.client.send_callback(BeaconCallback.CALLBACK_DEAD, data)
            last = next((w for w in reversed(self.wire) if w[2] == "client-request"), None)
            if not self.interop_errors and (last is None or last[1] != [("callback", self.client.counter, 26, data)]):
                self.interop_errors.append(f"send_callback: the reference server decoded {last[1] if last else None!r:.120}, the client was asked to send counter={self.client.counter} type=26 data={data!r}")
        elif ev == "P1":
            from dissect.cobaltstrike.client import BeaconCallback

            data = b"result-" + bytes(lcg(20, self.seed + len(self.wire)))
            self.client.send_callback(BeaconCallback.CALLBACK_OUTPUT, data)
            last = next((w for w in reversed(self.wire) if w[2] == "client-request"), None)
            if not self.interop_errors and (last is None or last[1] != [("callback", self.client.counter, 0, data)]):
                self.interop_errors.append(f"send_callback: the reference server decoded {last[1] if last else None!r:.120}, the client was asked to send counter={self.client.counter} type=0 data={data!r:.40}")
            # ground truth for the client's own callback: what the harness asked it to send
        elif ev in ("P2", "P3"):
            self.ref_callback(int(ev[1]))
        elif ev == "B2":
            # a batch: two callback messages (1 and 2 packets) are encoded with the library's own post transform
            # first (no initial request given) and put on the wire afterwards
            from dissect.cobaltstrike import c2

            prepared = []
            for npk in (1, 2):
                pkts, stream = [], b""
                for i in range(npk):
                    self.counter += 1
                    data = bytes(lcg((5, 20, 33)[(i + npk) % 3], self.seed + self.counter))
                    plain = struct.pack(">III", self.counter, len(data), 0) + data
                    ct, sig = RA.encrypt_packet(plain, self.keys[0], self.keys[1])
                    stream += struct.pack(">I", len(ct) + 16) + ct + sig
                    pkts.append(("callback", self.counter, 0, data))
                real = random.getrandbits
                random.getrandbits = lambda k: 0x1357_9BDF
                try:
                    req = self.client.c2http.transform_submit.transform(c2.ClientC2Data(id=str(self.client.beacon_id).encode(), output=stream))
                finally:
                    random.getrandbits = real
                prepared.append((req, pkts))
            for req, pkts in prepared:
                raw = RH.serialize_request(self.verb_post, self.submit_uri + req.uri, list(req.params.items()), [(b"Host", b"h.example")] + list(req.headers.items()), req.body)
                self.wire.append((raw, pkts, "library-encoded-batch"))
        elif ev == "Minfo":
            # the beacon's self-description changes during the session (longer, then the next check-in carries it)
            if not hasattr(self, "base_info"):
                self.base_info = bytes(self.client.metadata.info)
            self.client.metadata.info = self.base_info + b"\tC:\\Windows\\System32\\RuntimeBroker.exe"[: 10 + 5 * (len(self.wire) % 4)]
        elif ev == "Uverb":
            raw = RH.serialize_request(b"DELETE", self.get_uris[0], [], [(b"Host", b"h")], b"")
            self.wire.append((raw, "REJECT", "unrelated"))
        elif ev == "Uuri":
            raw = RH.serialize_request(self.verb_get, b"/unrelated/path", [(b"q", b"1")], [(b"Host", b"h"), (b"Cookie", b"AAAA")], b"x")
            self.wire.append((raw, "REJECT", "unrelated"))
        elif ev == "Rprefix":
            # a related request: the first check-in replayed under a longer URI with the same prefix
            first = next((w for w in self.wire if w[2] == "client-request" and w[1] and w[1][0][0] == "metadata"), None)
            if first is not None and not any(op == "URI_APPEND" for op, _ in self.get_prog):
                req = RH.parse(first[0])
                raw2 = first[0].replace(req["uri"], req["uri"] + b"extra", 1)
                self.wire.append((raw2, first[1], "related-prefix"))


def truth_projection(truth, variant):
    """What a decoder with this key material must yield for one wire message."""
    out = []
    for p in truth:
        if p[0] == "metadata":
            if "rsa" in variant:
                out.append(("metadata", p[1]["bid"], p[1]["pid"], p[1]["aes_rand"], p[1]["info"]))
        elif p[0] == "task":
            out.append(("task", p[1], p[2], p[3]))
        else:
            out.append(("callback", p[1], p[2], p[3]))
    return out


def decode_log(session, variant):
    """Feed the wire log to a fresh real C2Http. -> None or (signature, expected, observed)"""
    from dissect.cobaltstrike import beacon, c2

    cfg = beacon.BeaconConfig(session.block)
    aes_rand = session.client.aes_rand
    ak, hk = RA.derive_keys(aes_rand)
    partial = variant.endswith("/first-packet-only")  # a consumer that takes one packet per message and stops
    variant = variant.split("/")[0]
    kw = {"rsa": dict(rsa_private_key=session.priv), "aes_rand": dict(aes_rand=aes_rand), "aes_rand+rsa": dict(aes_rand=aes_rand, rsa_private_key=session.priv), "aes+hmac": dict(aes_key=ak, hmac_key=hk), "aes-noverify": dict(aes_key=ak, verify_hmac=False)}[variant]
    try:
        dec = c2.C2Http(cfg, **kw)
    except Exception as e:  # noqa
        return "C07/decoder/init-exception", "decoder", f"{type(e).__name__}: {e}"
    for i, (raw, truth, kind) in enumerate(session.wire):
        if truth is None:
            continue  # interop failure already recorded
        try:
            got = []
            gen = dec.iter_recover_http(raw)
            for p in gen:
                n = type(p).__name__
                if n == "BeaconMetadata":
                    got.append(("metadata", p.bid, p.pid, bytes(p.aes_rand), bytes(p.info)))
                elif n == "TaskPacket":
                    got.append(("task", p.epoch, p.command.value, bytes(p.data)))
                else:
                    got.append(("callback", p.counter, p.callback.value, bytes(p.data)))
                if partial:
                    gen.close()
                    break
            err = None
        except ValueError as e:
            got, err = None, f"ValueError: {e}"
        except Exception as e:  # noqa
            got, err = None, f"{type(e).__name__}: {e}"
        if truth == "REJECT":
            if err is None or not err.startswith("ValueError"):
                return "C07/unrelated-request-not-rejected", "ValueError", {"message": i, "result": _pj(got) if err is None else err}
            continue
        want = truth_projection(truth, variant)
        if partial:
            want = want[:1]
        if err is not None:
            return f"C07/decode/exception/{kind}", {"message": i, "packets": _pj(want)}, {"message": i, "error": err[:200], "first_line": raw.split(b"\r\n")[0].decode("latin-1")[:120]}
        if got != want:
            return f"C07/decode/packets-differ/{kind}", {"message": i, "packets": _pj(want)}, {"message": i, "packets": _pj(got), "first_line": raw.split(b"\r\n")[0].decode("latin-1")[:120]}
    return None


def _pj(pk):
    if pk is None:
        return None
    return [[x.hex()[:48] if isinstance(x, bytes) else x for x in p] for p in pk]


def run_history(cfg_kw, hist, seed, uri_choice=0, beacon_id=0x1234, prerun_id=None):
    """-> (bad or None, session)"""
    s = Session(cfg_kw, seed, uri_choice, beacon_id)
    s.prerun_id = prerun_id
    try:
        s.start()
        for ev in hist:
            s.event(ev)
    except Exception as e:  # noqa
        s.stop()
        return ("C07/session/exception", "session", f"{type(e).__name__}: {str(e)[:200]}"), s
    s.stop()
    # ground truth for the library client's own callbacks is what the reference server decoded; cross-check count
    if s.interop_errors:
        return ("C07/interop/" + ("get_task" if s.interop_errors[0].startswith("get_task") else "stale-metadata" if s.interop_errors[0].startswith("stale metadata") else "server-cannot-decode"), "client and reference server interoperate", s.interop_errors[0][:300]), s
    for v in VARIANTS:
        bad = decode_log(s, v)
        if bad:
            return (bad[0] + f"/{v}" if not bad[0].startswith("C07/unrelated") else bad[0], bad[1], bad[2]), s
    return None, s


def chunk_hist(chunk, acc):
    menu = dict(config_menu())
    kw = menu[chunk["config"]]
    depth = BOUNDS[acc.tier]["depth_default" if chunk["config"] == "default" else "depth_dev"]
    prefix = (chunk["first"],) + ((chunk["second"],) if chunk["second"] else ())
    rests = [()] if chunk["second"] is None else list(sequences(EVENTS, depth - 2))
    # the two events added last are explored where they can matter: the library-encoded batch (B2) with the default
    # and every callback-side configuration, the changed self-description (Minfo) with the default and every
    # check-in-side configuration; the default configuration explores everything
    cname = chunk["config"]
    allow_b2 = cname == "default" or cname.startswith(("post:", "combo:post", "other:verbs"))
    allow_minfo = cname == "default" or cname.startswith(("get:", "combo:uri-append", "other:host"))
    for rest in rests:
        hist = prefix + rest
        if ("B2" in hist and not allow_b2) or ("Minfo" in hist and not allow_minfo):
            continue
        # (the URI choice only matters for the check-in side: one choice suffices for histories with the new events
        # outside the default configuration)
        nuris = 1 if cname != "default" and ("B2" in hist or "Minfo" in hist) else len(dict.fromkeys(kw.get("domains", b"a,/ptj,b,/load").split(b",")[1::2]))
        for uc in range(nuris):
            acc.states += 1
            acc.transitions += len(hist)
            bad, s = run_history(kw, hist, acc.seed, uc)
            acc.case((hist, uc), nontrivial=any(e not in ("C0", "Uverb", "Uuri") for e in hist), outcome=bad[0] if bad else len(s.wire))
            acc.count("wire_messages_decoded", len(s.wire) * len(VARIANTS))
            if bad:
                acc.fail(bad[0], {"kind": "history", "config": chunk["config"], "history": list(hist), "seed": acc.seed, "uri_choice": uc}, bad[1], bad[2])
    acc.sample({"config": chunk["config"], "history": list(prefix) + ["P2", "Uuri"], "key_variants": list(VARIANTS)})


def chunk_ids(chunk, acc):
    """The session keys come from the beacon id: ids whose 16 seed bytes start with 00, odd ids, large ids."""
    from vmc.checks.c19 import leading_zero_ids

    ids = leading_zero_ids(4) + [0, 1, 2, 1235, 0x7FFFFFFE, 0x7FFFFFFF]
    for bid in ids:
        for hist in (("C1", "P1", "C0"), ("C2", "P2", "C1", "P1e")):
            acc.states += 1
            acc.transitions += len(hist)
            bad, s = run_history({}, hist, acc.seed, 0, bid)
            acc.case((bid, hist), outcome=bad[0] if bad else len(s.wire))
            if bad:
                acc.fail(bad[0] + "/beacon-id", {"kind": "ids", "beacon_id": bid, "history": list(hist), "seed": acc.seed}, bad[1], bad[2])
    # a client object that is configured a second time (other id) before the session starts
    for pre, bid in ((2, 0x1234), (0x1234, 2), (0x1234, 0x1234)):
        for hist in (("C1", "P1", "C0"), ("C2", "P2", "C1", "P1e")):
            acc.states += 1
            acc.transitions += len(hist)
            bad, s = run_history({}, hist, acc.seed, 0, bid, prerun_id=pre)
            acc.case(("rerun", pre, bid, hist), outcome=bad[0] if bad else len(s.wire))
            if bad:
                acc.fail(bad[0] + "/client-reconfigured", {"kind": "ids", "beacon_id": bid, "prerun_id": pre, "history": list(hist), "seed": acc.seed}, bad[1], bad[2])
    acc.sample({"beacon_ids": ids, "note": "first ids: session seed begins with a zero byte"})


def chunk_pair(chunk, acc):
    menu = dict(config_menu())
    kw = dict(menu[chunk["a"]])
    kw.update(menu[chunk["b"]])
    for hist in (("C1", "P1", "C0"), ("C2", "P3", "Uuri", "C1"), ("C0", "P2", "Rprefix")):
        acc.states += 1
        acc.transitions += len(hist)
        bad, s = run_history(kw, hist, acc.seed)
        acc.case(hist, outcome=bad[0] if bad else len(s.wire))
        if bad:
            acc.fail(bad[0], {"kind": "pair", "a": chunk["a"], "b": chunk["b"], "history": list(hist), "seed": acc.seed}, bad[1], bad[2])
    acc.sample({"configs": [chunk["a"], chunk["b"]]})


def run_chunk(chunk, acc):
    globals()["chunk_" + chunk["kind"]](chunk, acc)


def replay(case):
    menu = dict(config_menu())
    if case["kind"] == "ids":
        bad, s = run_history({}, tuple(case["history"]), case["seed"], 0, case["beacon_id"], prerun_id=case.get("prerun_id"))
        return {"ok": bad is None, "expected": bad[1] if bad else None, "observed": {"signature": bad[0], "detail": bad[2]} if bad else None}
    if case["kind"] == "history":
        kw = menu[case["config"]]
    else:
        kw = dict(menu[case["a"]])
        kw.update(menu[case["b"]])
    bad, s = run_history(kw, tuple(case["history"]), case["seed"], case.get("uri_choice", 0))
    return {"ok": bad is None, "expected": bad[1] if bad else None, "observed": {"signature": bad[0], "detail": bad[2]} if bad else None}
