"""C20 - Byte-level codecs and stager URI classification are exact (form G, exhaustive enumeration)."""

from __future__ import annotations

import itertools
import random
import string

from vmc.kernel import sequences
from vmc.ref import tlv
from vmc.runner import lcg

ID = "C20"
LEVEL = "model_checking"
RULE = (
    "construction automaton: append one symbol to the data/key/URI; every node up to the bound is executed against "
    "utils.xor, netbios_encode/decode, pack/unpack (+ the pN/uN partials), is_stager_x86/x64, random_stager_uri "
    "(random.choice scripted) and BeaconCapture.find_staged_beacon and compared with per-byte reference codecs and an "
    "independent checksum8. non-trivial = data non-empty / value non-zero / URI classified as a stager by either side"
    '. Added: buffers > 64 KiB, every NetBIOS offset, signed fixed-width helpers, long requested stager lengths, non-ASCII URIs, request verbs and composite request targets at the staged-beacon gate. '
)
ASSUMPTIONS = [
    "URIs contain no line terminators (a request line cannot carry one; `$` in the x64 pattern would accept a trailing LF)",
    "auto-width *signed* packing is not 'a width' and is excluded",
    "NetBIOS offsets are <= 240 so that encoded symbols fit a byte",
]
ALNUM = string.ascii_letters + string.digits
BOUNDS = {
    "quick": {"alnum": ALNUM[:18] + ALNUM[26:44] + ALNUM[52:62], "netbios_len": 2, "short_uri_len": 5},
    "thorough": {"alnum": ALNUM, "netbios_len": 2, "short_uri_len": 6},
}


def ref_xor(data: bytes, key: bytes) -> bytes:
    if not key or not any(key):
        return data
    return bytes(d ^ key[i % len(key)] for i, d in enumerate(data))


def ref_checksum8(text: str) -> int:
    if len(text) < 4:
        return 0
    return sum(ord(c) for c in text if c != "/") % 256


def ref_x86(uri: str) -> bool:
    return ref_checksum8(uri) == 92


def ref_x64(uri: str) -> bool:
    return ref_checksum8(uri) == 93 and len(uri) == 5 and uri[0] == "/" and all(c in ALNUM for c in uri[1:])


def plan(tier, seed):
    b = BOUNDS[tier]
    ch = [
        {"key": "xor/small", "kind": "xor_small", "cost": 300},
        {"key": "xor/bytes", "kind": "xor_bytes", "cost": 300},
        {"key": "pack/w1w2", "kind": "pack_small", "cost": 800},
        {"key": "pack/boundaries", "kind": "pack_bound", "cost": 50},
        {"key": "stager/short", "kind": "stager_short", "cost": 200},
        {"key": "stager/random", "kind": "stager_random", "cost": 400},
    ] + [{"key": f"stager/random-long/{L}", "kind": "stager_random_long", "length": L, "cost": 300 + L // 4} for L in ((200, 500, 1000, 2000, 4000) if tier == "quick" else (200, 500, 1000, 2000, 4000, 8000, 16000))] + [
    ] + [{"key": f"staged/find/{i}", "kind": "staged", "part": i, "cost": 800} for i in range(8)] + [
    ]
    for off in (0, 1, 0x41, 0x61, 240):
        ch.append({"key": f"netbios/{off}", "kind": "netbios", "offset": off, "cost": 300})
    ch.append({"key": "netbios/all-offsets", "kind": "netbios_offsets", "cost": 400})
    for c in b["alnum"]:
        ch.append({"key": f"stager/alnum4/{c}", "kind": "stager_alnum", "first": c, "cost": len(b["alnum"]) ** 3 // 100})
    return ch


def call(f, *a, **k):
    try:
        return f(*a, **k)
    except Exception as e:  # noqa
        return f"EXC {type(e).__name__}: {e}"


def chunk_xor_small(chunk, acc):
    from dissect.cobaltstrike import utils

    alpha = (0x00, 0x01, 0xFF)
    for data in map(bytes, sequences(alpha, 4)):
        acc.states += 1
        for key in map(bytes, sequences(alpha, 5)):
            acc.transitions += 1
            got = call(utils.xor, data, key)
            exp = ref_xor(data, key)
            acc.case((data, key), nontrivial=bool(data) and any(key), outcome=got if isinstance(got, str) else got.hex())
            if got != exp:
                acc.fail("C20/xor/value", {"kind": "xor", "data": data.hex(), "key": key.hex()}, exp.hex(), got if isinstance(got, str) else got.hex())
                continue
            back = call(utils.xor, got, key)
            if back != data or len(got) != len(data):
                acc.fail("C20/xor/not-self-inverse", {"kind": "xor", "data": data.hex(), "key": key.hex()}, data.hex(), back if isinstance(back, str) else back.hex())
    acc.sample({"data": "01ff00", "key": "ff01", "expect": ref_xor(b"\x01\xff\x00", b"\xff\x01").hex()})


def chunk_xor_bytes(chunk, acc):
    from dissect.cobaltstrike import utils

    for d in range(256):
        acc.states += 1
        for k in range(256):
            acc.transitions += 1
            got = call(utils.xor, bytes([d]), bytes([k]))
            acc.case((d, k), nontrivial=k != 0, outcome=got if isinstance(got, str) else got[0] if got else -1)
            if got != bytes([d ^ k]):
                acc.fail("C20/xor/value", {"kind": "xor", "data": f"{d:02x}", "key": f"{k:02x}"}, f"{d ^ k:02x}", got if isinstance(got, str) else got.hex())
    big = lcg(1024, acc.seed + 1)
    for key in (b"\x01", b"\x12\x34\x56\x78", lcg(7, acc.seed), lcg(1024, 3), lcg(2000, 4), b"\x00" * 9, b"\x00\x00\x00\x01"):
        for data in (big, big[:1], big[:5], b""):
            acc.states += 1
            acc.transitions += 1
            got = call(utils.xor, data, key)
            acc.case((data, key), nontrivial=True, outcome=got if isinstance(got, str) else hash(got))
            if got != ref_xor(data, key) or call(utils.xor, got, key) != data:
                acc.fail("C20/xor/value", {"kind": "xor", "data": data.hex(), "key": key.hex()}, ref_xor(data, key).hex()[:80], (got if isinstance(got, str) else got.hex())[:80])
    for n in (65535, 65536, 65537, 131075, 200001):
        data = bytes(lcg(n, acc.seed + n))
        for kl in (1, 3, 4, 5, 7, 13, 256):
            key = bytes((b % 255) + 1 for b in lcg(kl, acc.seed + kl))
            acc.states += 1
            acc.transitions += 1
            got = call(utils.xor, data, key)
            exp = bytes(a ^ b for a, b in zip(data, (key * (n // kl + 1))[:n]))
            acc.case(("big", n, kl), outcome=hash(got) if isinstance(got, bytes) else got)
            if got != exp:
                i = next((i for i in range(n) if isinstance(got, bytes) and i < len(got) and got[i] != exp[i]), -1)
                acc.fail("C20/xor/value/large-buffer", {"kind": "xor_big", "len": n, "keylen": kl, "seed": acc.seed}, f"repeating-key xor of {n} bytes", got if isinstance(got, str) else f"len={len(got)} first difference at byte {i}")
    acc.sample({"data_len": 1024, "key_len": 7, "large_buffers": [65535, 65536, 65537, 131075, 200001]})


def chunk_netbios(chunk, acc):
    from dissect.cobaltstrike import utils

    off = chunk["offset"]
    for data in map(bytes, sequences(range(256), BOUNDS[acc.tier]["netbios_len"])):
        acc.states += 1
        acc.transitions += 1
        enc = call(utils.netbios_encode, data, off)
        exp = bytes(x for c in data for x in (off + (c >> 4), off + (c & 15)))
        acc.case(data, nontrivial=bool(data), outcome=None)
        if enc != exp:
            acc.fail("C20/netbios/encode", {"kind": "netbios", "data": data.hex(), "offset": off}, exp.hex(), enc if isinstance(enc, str) else enc.hex())
            continue
        dec = call(utils.netbios_decode, enc, off)
        if dec != data:
            acc.fail("C20/netbios/roundtrip", {"kind": "netbios", "data": data.hex(), "offset": off}, data.hex(), dec if isinstance(dec, str) else dec.hex())
    # default offsets
    for data in (b"", b"\x00", b"\xff", bytes(range(256))):
        if call(utils.netbios_decode, call(utils.netbios_encode, data)) != data:
            acc.fail("C20/netbios/roundtrip", {"kind": "netbios", "data": data.hex(), "offset": None}, data.hex(), "mismatch")
    acc.sample({"data": "a5", "offset": off, "encoded": bytes([off + 10, off + 5]).hex()})


def chunk_netbios_offsets(chunk, acc):
    """Every offset 0..240 x every single byte (and a few two-byte strings)."""
    from dissect.cobaltstrike import utils

    for off in range(0, 241):
        acc.states += 1
        for data in [bytes([b]) for b in range(256)] + [b"\x2c\xa5", b"\x00\xff", b"\x9f\x10"]:
            acc.transitions += 1
            enc = call(utils.netbios_encode, data, off)
            exp = bytes(x for c in data for x in (off + (c >> 4), off + (c & 15)))
            dec = call(utils.netbios_decode, enc, off) if not isinstance(enc, str) else enc
            acc.case((off, data), outcome=None)
            if enc != exp or dec != data:
                acc.fail("C20/netbios/roundtrip/offset", {"kind": "netbios", "data": data.hex(), "offset": off}, data.hex(), dec if isinstance(dec, str) else dec.hex())
    acc.sample({"offsets": "0..240", "data": "every single byte"})


WIDTHS = {1: ("p8", "u8", None, None), 2: ("p16", "u16", "p16be", "u16be"), 4: ("p32", "u32", "p32be", "u32be"), 8: ("p64", "u64", "p64be", "u64be")}


def pack_case(acc, utils, n, size, order, signed):
    lo, hi = (-(1 << (8 * size - 1)), (1 << (8 * size - 1)) - 1) if signed else (0, (1 << (8 * size)) - 1)
    acc.transitions += 1
    got = call(utils.pack, n, size, byteorder=order, signed=signed)
    case = {"kind": "pack", "n": n, "size": size, "order": order, "signed": signed}
    acc.case((n, size, order, signed), nontrivial=n != 0, outcome=None)
    if lo <= n <= hi:
        exp = n.to_bytes(size, order, signed=signed) if True else None
        # independent expectation: digit expansion
        v = n & ((1 << (8 * size)) - 1)
        digits = [(v >> (8 * i)) & 0xFF for i in range(size)]
        exp = bytes(digits if order == "little" else digits[::-1])
        if got != exp:
            acc.fail("C20/pack/value", case, exp.hex(), got if isinstance(got, str) else got.hex())
            return
        back = call(utils.unpack, got, size, byteorder=order, signed=signed)
        if back != n:
            acc.fail("C20/pack/unpack-not-inverse", case, n, back)
        # the fixed-width helpers (p8 .. u64be), unsigned by default and with signed=True
        if size in WIDTHS:
            pn, un, pbe, ube = WIDTHS[size]
            names = (pn, un) if order == "little" else (pbe, ube)
            if names[0]:
                kw = {"signed": True} if signed else {}
                g2 = call(getattr(utils, names[0]), n, **kw)
                b2 = call(getattr(utils, names[1]), exp, **kw)
                if g2 != exp or b2 != n:
                    acc.fail("C20/pack/partial", dict(case, partial=names[0] if g2 != exp else names[1]), {"packed": exp.hex(), "unpacked": n}, {"packed": g2 if isinstance(g2, str) else g2.hex(), "unpacked": b2})
    else:
        if not (isinstance(got, str) and got.startswith("EXC OverflowError")):
            acc.fail("C20/pack/out-of-range-not-overflow", case, "OverflowError", got if isinstance(got, str) else got.hex())


def chunk_pack_small(chunk, acc):
    from dissect.cobaltstrike import utils

    for size in (1, 2):
        for signed in (False, True):
            lo, hi = (-(1 << (8 * size - 1)), (1 << (8 * size - 1)) - 1) if signed else (0, (1 << (8 * size)) - 1)
            for order in ("little", "big"):
                acc.states += 1
                for n in range(lo - 2, hi + 3):
                    pack_case(acc, utils, n, size, order, signed)
    acc.sample({"n": -32768, "size": 2, "order": "big", "signed": True, "expect": "8000"})


def chunk_pack_bound(chunk, acc):
    from dissect.cobaltstrike import utils

    for size in (3, 4, 8, 16):
        bits = 8 * size
        fam = {0, 1, -1, 2, 255, 256, (1 << (bits - 1)) - 1, 1 << (bits - 1), (1 << bits) - 1, 1 << bits, -(1 << (bits - 1)), -(1 << (bits - 1)) - 1}
        fam |= {(1 << k) - 1 for k in range(1, bits + 1)} | {1 << k for k in range(0, bits + 1)}
        for signed in (False, True):
            for order in ("little", "big"):
                acc.states += 1
                for n in sorted(fam):
                    pack_case(acc, utils, n, size, order, signed)
    # auto-width unsigned: pack(n) uses the minimal width and unpack inverts it
    for n in [0, 1, 255, 256, 65535, 65536, (1 << 32) - 1, 1 << 32, (1 << 64) - 1, 1 << 64] + [(1 << k) - 1 for k in range(1, 70, 7)]:
        for f, order in ((utils.pack, "little"), (utils.pack_be, "big")):
            acc.transitions += 1
            got = call(f, n)
            width = (n.bit_length() + 7) // 8
            exp = n.to_bytes(width, order)
            acc.case(("auto", n, order), nontrivial=n != 0)
            if got != exp:
                acc.fail("C20/pack/auto-width", {"kind": "pack_auto", "n": n, "order": order}, exp.hex(), got if isinstance(got, str) else got.hex())
            else:
                un = utils.unpack if order == "little" else utils.unpack_be
                if call(un, got) != n:
                    acc.fail("C20/pack/auto-width", {"kind": "pack_auto", "n": n, "order": order}, n, call(un, got))
    # unpack of every 2-byte string, both orders and signednesses, against positional notation
    for a in range(256):
        for bb in range(0, 256, 5):
            d = bytes([a, bb])
            for order in ("little", "big"):
                for signed in (False, True):
                    acc.transitions += 1
                    v = (a + 256 * bb) if order == "little" else (256 * a + bb)
                    if signed and v >= 32768:
                        v -= 65536
                    got = call(utils.unpack, d, 2, byteorder=order, signed=signed)
                    acc.case(("unpack", d, order, signed))
                    if got != v:
                        acc.fail("C20/unpack/value", {"kind": "unpack", "data": d.hex(), "order": order, "signed": signed}, v, got)
    acc.sample({"n": (1 << 63), "size": 8, "signed": True, "expect": "OverflowError"})


def classify_case(acc, utils, uri):
    acc.transitions += 1
    g86, g64 = call(utils.is_stager_x86, uri), call(utils.is_stager_x64, uri)
    e86, e64 = ref_x86(uri), ref_x64(uri)
    nt = bool(e86 or e64 or g86 is True or g64 is True)
    acc.case(uri, nontrivial=nt, outcome=(g86, g64) if nt else 0)
    if g86 != e86:
        acc.fail("C20/stager/x86-classifier", {"kind": "uri", "uri": uri}, {"x86": e86, "checksum8": ref_checksum8(uri)}, {"x86": g86})
    if g64 != e64:
        acc.fail("C20/stager/x64-classifier", {"kind": "uri", "uri": uri}, {"x64": e64, "checksum8": ref_checksum8(uri)}, {"x64": g64})


def chunk_stager_alnum(chunk, acc):
    from dissect.cobaltstrike import utils

    alpha = BOUNDS[acc.tier]["alnum"]
    first = chunk["first"]
    n86 = n64 = 0
    is86, is64 = utils.is_stager_x86, utils.is_stager_x64
    for b in alpha:
        acc.states += 1
        for c in alpha:
            for d in alpha:
                uri = "/" + first + b + c + d
                s = (ord(first) + ord(b) + ord(c) + ord(d)) % 256
                g86, g64 = is86(uri), is64(uri)
                if g86 is not (s == 92) or g64 is not (s == 93):
                    classify_case(acc, utils, uri)  # records the failure with full detail
                else:
                    n86 += g86
                    n64 += g64
    total = len(alpha) ** 3
    acc.transitions += total
    acc.bulk(total, n86 + n64, outcomes=[("x86", n86 > 0), ("x64", n64 > 0)])
    acc.count("stager_x86_uris", n86)
    acc.count("stager_x64_uris", n64)
    acc.sample({"uri_family": f"/{first}???", "alphabet_size": len(alpha), "x86_stagers": n86, "x64_stagers": n64})


def chunk_stager_short(chunk, acc):
    from dissect.cobaltstrike import utils

    alpha = ("/", "a", "Z", "0", ".", "-", "ÿ", "_", "Ā")
    for w in sequences(alpha[:7], BOUNDS[acc.tier]["short_uri_len"]):
        acc.states += 1
        classify_case(acc, utils, "".join(w))
    # structured longer URIs incl. the repository's documented examples
    for uri in ["/H7mp", "/TO/Kn", "/TOKn", "/oO/o0", "/oOo0", "/pendants", "/spy", "/toy", "releasenotes.txt", "undisappointing", "", "/", "////", "/ab", "abcd", "/abcd/", "/a/b/c/d/e", "/Ābcd", "/_bcd", "/ab d"]:
        classify_case(acc, utils, uri)
    # every URI '/' + 4 chars where exactly one char is a non-alphanumeric that keeps checksum 93: must not be x64
    for bad in "._-~+ ÿ":
        for rest in itertools.product("aZ09m", repeat=3):
            for pos in range(4):
                body = list(rest)
                body.insert(pos, bad)
                classify_case(acc, utils, "/" + "".join(body))
    acc.sample({"uri": "/oOo0", "checksum8": ref_checksum8("/oOo0"), "x64": True})


def chunk_stager_random(chunk, acc):
    """random.choice is scripted: stream k enumerates candidate strings in a fixed order; the result must be the
    first candidate of the stream that the *reference* classifier accepts (so nothing is skipped or altered)."""
    from dissect.cobaltstrike import utils

    chars = string.ascii_letters + string.digits
    real_choice = random.choice
    try:
        for x64, length in [(False, l) for l in range(3, 9)] + [(True, 4)]:
            for stream in range(0, 40):
                acc.states += 1
                # counter-based source: candidate j is the base-62 expansion of (stream*7919 + j*(stream+1))
                state = {"j": 0, "i": 0, "cur": None, "cands": []}

                rng = random.Random(stream * 1009 + length * 17 + (1 if x64 else 0))
                pool = []

                def cand(j, rng=rng, pool=pool):
                    while len(pool) <= j:
                        pool.append("".join(chars[rng.randrange(62)] for _ in range(length)))
                    return pool[j]

                def fake_choice(seq):
                    assert seq == chars
                    if state["i"] == 0:
                        state["cur"] = cand(state["j"])
                        state["cands"].append(state["cur"])
                    c = state["cur"][state["i"]]
                    state["i"] += 1
                    if state["i"] == length:
                        state["i"] = 0
                        state["j"] += 1
                    return c

                utils.random.choice = fake_choice
                acc.transitions += 1
                try:
                    from vmc.runner import watchdog, Hang

                    with watchdog(20):
                        got = call(utils.random_stager_uri, x64=x64, length=length)
                except Hang:
                    got = "HANG"
                finally:
                    utils.random.choice = real_choice
                ref = ref_x64 if x64 else ref_x86
                j = 0
                while not ref("/" + cand(j)):
                    j += 1
                    if j > 200000:
                        break
                exp = "/" + cand(j)
                acc.case((x64, length, stream), outcome=got)
                if got != exp:
                    acc.fail("C20/stager/random-uri", {"kind": "random", "x64": x64, "length": length, "stream": stream}, exp, got)
        for kw in ({"length": 2}, {"length": 0}, {"length": -1}, {"x64": True, "length": 3}, {"x64": True, "length": 5}, {"x64": True, "length": 8}):
            acc.transitions += 1
            got = call(utils.random_stager_uri, **kw)
            acc.case(("invalid", tuple(sorted(kw.items()))), outcome=str(got)[:20])
            if not (isinstance(got, str) and got.startswith("EXC ValueError")):
                acc.fail("C20/stager/random-uri-invalid-length", {"kind": "random_invalid", "kw": kw}, "ValueError", got)
    finally:
        utils.random.choice = real_choice
    acc.sample({"x64": True, "length": 4, "scripted_stream": 3})


def chunk_stager_random_long(chunk, acc):
    """Long requested lengths (the acceptance rate per candidate stays 1/256, the work per candidate grows): whatever
    is returned satisfies the classifier and has the requested length."""
    from dissect.cobaltstrike import utils

    L = chunk["length"]
    state = random.getstate()
    try:
        for sd in range(8):
            random.seed(acc.seed * 1000 + sd * 7 + L)
            acc.states += 1
            acc.transitions += 1
            got = call(utils.random_stager_uri, length=L)
            acc.case(("long", L, sd), nontrivial=True, outcome=got[:12] if isinstance(got, str) else got)
            ok = isinstance(got, str) and got.startswith("/") and len(got) == L + 1 and ref_x86(got)
            if not ok:
                acc.fail("C20/stager/random-uri-does-not-satisfy-classifier", {"kind": "random_long", "length": L, "rng_seed": acc.seed * 1000 + sd * 7 + L}, "a URI of the requested length with checksum8 92", {"uri": got[:40], "len": len(got), "checksum8": sum(got.encode("latin-1", "replace")) % 256} if isinstance(got, str) and not got.startswith("EXC") else got)
    finally:
        random.setstate(state)
    acc.sample({"length": L, "rng": "random.seed(...) per call (8 seeds)", "oracle": "reference checksum8 == 92 and len == length + 1"})


def _beacon_body(seed):
    blk = tlv.encode([(1, 1, b"\x00\x00"), (2, 1, b"\x00\x50"), (7, 3, b"\x30\x00" + b"\x00" * 30), (8, 3, b"h.example,/x\x00"), (10, 3, b"/s\x00"), (37, 2, b"\x00\x00\x00\x07")])
    blk = blk.ljust(4096, b"\x00")
    return lcg(50, seed) + bytes(b ^ 0x2E for b in blk) + lcg(20, seed + 1)


def chunk_staged(chunk, acc):
    from dissect.cobaltstrike import c2, pcap

    cap = pcap.BeaconCapture(pcap="unused.pcap")
    valid = _beacon_body(acc.seed)
    junk = lcg(300, acc.seed + 5)
    uris = ["".join(w) for w in sequences(("/", "a", "Z", "0", "5", "m"), 5, 1)]
    uris += ["/oOo0", "/H7mp", "/TO/Kn", "/pendants", "/spy", "/oO/o0", "/submit.php", "/", "/ab.d"]
    # request targets that *contain* a stager path behind / in front of something else: the whole string is what is
    # classified (query, fragment, scheme and authority are part of it)
    for core in ("/TOKn", "/oOo0", "/toy", "/spy", "/aaa5"):
        uris += [core + "?id=1", core + "#top", core + "?", "//cdn" + core, "//a" + core, "http://10.0.0.1" + core, "x:" + core, core + ";v=1"]
    part = chunk.get("part", 0)
    uris = [u for i, u in enumerate(uris) if i % 8 == part]
    stager_budget = 50 if acc.tier == "quick" else 500
    for body_name, body in (("valid", valid), ("junk", junk)):
        # no request attached: decided by the body alone
        acc.transitions += 1
        resp = c2.HttpResponse(status=200, headers={}, reason=b"OK", body=body)
        got = call(cap.find_staged_beacon, resp)
        acc.case(("noreq", body_name), outcome=type(got).__name__)
        if (body_name == "valid") != (type(got).__name__ == "BeaconConfig"):
            acc.fail("C20/staged/no-request", {"kind": "staged", "uri": None, "body": body_name, "seed": acc.seed}, "BeaconConfig" if body_name == "valid" else None, repr(got)[:100])
        for uri in uris:
            stager = ref_x86(uri) or ref_x64(uri)
            if stager:
                if stager_budget <= 0:
                    continue
                stager_budget -= 1
            acc.states += 1
            acc.transitions += 1
            # (a known request that is not a stager URI is never a staged beacon - whatever its verb)
            for method in (b"GET",) if stager else (b"GET", b"POST", b"PUT", b"HEAD", b"get"):
                req = c2.HttpRequest(method=method, uri=uri.encode(), params={}, headers={}, body=b"")
                resp = c2.HttpResponse(status=200, headers={}, reason=b"OK", body=body, request=req)
                got = call(cap.find_staged_beacon, resp)
                kind = type(got).__name__
                acc.case((uri, body_name, method), nontrivial=stager or kind != "NoneType", outcome=(stager, kind))
                exp = "BeaconConfig" if (stager and body_name == "valid") else "NoneType"
                if kind != exp:
                    sig = "C20/staged/non-stager-request-treated-as-staged" if not stager else "C20/staged/stager-request"
                    acc.fail(sig, {"kind": "staged", "uri": uri, "body": body_name, "seed": acc.seed, "method": method.decode()}, exp, repr(got)[:100])
    acc.sample({"request_uri": "/aaa5", "stager": ref_x86("/aaa5"), "body": "valid beacon", "expect": "None unless stager"})


def run_chunk(chunk, acc):
    globals()["chunk_" + chunk["kind"]](chunk, acc)


def replay(case):
    from dissect.cobaltstrike import utils

    k = case["kind"]
    if k == "xor":
        d, key = bytes.fromhex(case["data"]), bytes.fromhex(case["key"])
        got = call(utils.xor, d, key)
        ok = got == ref_xor(d, key) and call(utils.xor, got, key) == d
        return {"ok": ok, "expected": ref_xor(d, key).hex(), "observed": got if isinstance(got, str) else got.hex()}
    if k == "netbios":
        d = bytes.fromhex(case["data"])
        off = case["offset"]
        args = () if off is None else (off,)
        enc = call(utils.netbios_encode, d, *args)
        dec = call(utils.netbios_decode, enc, *args) if not isinstance(enc, str) else enc
        return {"ok": dec == d, "expected": d.hex(), "observed": dec if isinstance(dec, str) else dec.hex()}
    if k == "uri":
        u = case["uri"]
        g = (call(utils.is_stager_x86, u), call(utils.is_stager_x64, u))
        e = (ref_x86(u), ref_x64(u))
        return {"ok": g == e, "expected": list(e), "observed": list(g)}
    if k == "xor_big":
        from vmc.runner import Acc

        a = Acc("replay", "quick", case["seed"])
        chunk_xor_bytes({}, a)
        return {"ok": not a.violations, "expected": a.violations[0]["expected"] if a.violations else None, "observed": a.violations[0]["observed"] if a.violations else None}
    if k in ("pack", "pack_auto", "unpack", "random", "random_invalid", "staged"):
        from vmc.runner import Acc

        a = Acc("replay", "quick", case.get("seed", 0))
        if k == "pack":
            pack_case(a, utils, case["n"], case["size"], case["order"], case["signed"])
        elif k == "staged":
            from dissect.cobaltstrike import c2, pcap

            cap = pcap.BeaconCapture(pcap="unused.pcap")
            body = _beacon_body(case["seed"]) if case["body"] == "valid" else lcg(300, case["seed"] + 5)
            req = None if case["uri"] is None else c2.HttpRequest(method=case.get("method", "GET").encode(), uri=case["uri"].encode(), params={}, headers={}, body=b"")
            got = call(cap.find_staged_beacon, c2.HttpResponse(status=200, headers={}, reason=b"OK", body=body, request=req))
            stager = case["uri"] is None or ref_x86(case["uri"]) or ref_x64(case["uri"])
            exp = "BeaconConfig" if (stager and case["body"] == "valid") else "NoneType"
            return {"ok": type(got).__name__ == exp, "expected": exp, "observed": repr(got)[:100]}
        else:
            # re-run the whole (small) family the case came from
            {"pack_auto": chunk_pack_bound, "unpack": chunk_pack_bound, "random": chunk_stager_random, "random_invalid": chunk_stager_random, "random_long": lambda c, x: chunk_stager_random_long({"length": case["length"]}, x)}[k]({}, a)
        return {"ok": not a.violations, "expected": a.violations[0]["expected"] if a.violations else None, "observed": a.violations[0]["observed"] if a.violations else None}
    raise ValueError(k)
