"""C12 - Profile string literals encode and decode bytes losslessly and safely (form G, exhaustive)."""

from __future__ import annotations

import itertools

from vmc.kernel import sequences
from vmc.ref import profile as RP

ID = "C12"
LEVEL = "model_checking"
RULE = (
    "construction automaton: append one byte (all 256 values up to length 2; the 12 syntax-relevant characters up to "
    "length 4) / one escape atom (up to 3); every byte string is converted with value_to_string, read back with "
    "string_token_to_bytes, lexed and parsed inside `set useragent ...;`, inside a data-transform list and (short "
    "strings) inside every string-bearing production of the grammar table; every escape sequence is decoded and "
    "compared with the documented value. non-trivial = the byte string / escape sequence is non-empty"
    '. Added: every renderer-relevant pair/triple rendered and read back, upper-case hex digits, builder step / termination / keyword arguments, and conversion histories (text then bytes, bytes then text, malformed literal in between). '
)
ASSUMPTIONS = [
    "the Reconstructor is memoised by the harness (vmc/profile_env.py); a subset runs un-memoised",
    "only the documented escapes (\\xHH, \\uHHHH, \\n, \\r, \\t, \\\\, \\\", \\') are in the domain",
]
SYNTAX = (0x22, 0x5C, ord("x"), ord("u"), 0x0A, ord(";"), ord("{"), ord("}"), ord("#"), 0x27, ord("n"), ord("0"))
BUILDER_BYTES = (b"MZ", b"", b" padded ", b"\x0b\x0c", b'a"b\\', b"\\x41", b"\x00\xff", b"x", b"\t\n", b'"a"', b'""', b"C:\\Windows\\a.exe", b"\\\\.\\pipe\\x")
MALFORMED = ('"MZ\\xZZ"', '"abc\\x4"', '"PE\\u12"', '"q\\u00"', '"\\x"')
HIST_ALPHA = (0x5C, 0x22, 0x27, 0x6E, 0x78, 0x34, 0x31, 0x0A, 0x3B, 0xE9)  # \\ " ' n x 4 1 LF ; e-acute
BOUNDS = {"quick": {"syntax_len": 3, "dict_every": 8}, "thorough": {"syntax_len": 4, "dict_every": 1}}
ATOMS = (("a", b"a"), ("\\x41", b"A"), ("\\xff", b"\xff"), ("A", b"A"), ("\\n", b"\n"), ("\\r", b"\r"), ("\\t", b"\t"), ("\\\\", b"\\"), ('\\"', b'"'), ("\\'", b"'"), ("'", b"'"), ("\\u0042", b"B"))


def plan(tier, seed):
    ch = []
    for hi in range(0, 256, 8):
        ch.append({"key": f"bytes2/{hi:02x}", "kind": "bytes2", "hi": hi, "cost": 8 * 257})
    for first in SYNTAX:
        ch.append({"key": f"syntax/{first:02x}", "kind": "syntax", "first": first, "cost": 12 ** (BOUNDS[tier]["syntax_len"] - 1)})
    kinds = sorted({k for k, f in RP.all_forms() if f[0] == "s" and f[3] > 0})
    for k in kinds:
        ch.append({"key": f"productions/{k}", "kind": "productions", "blockkind": k, "cost": 2000})
    for i in range(len(ATOMS)):
        ch.append({"key": f"escapes/{i}", "kind": "escapes", "first": i, "cost": 200})
    ch.append({"key": "escapes/hex", "kind": "escapes_hex", "cost": 300})
    ch.append({"key": "uncached", "kind": "uncached", "cost": 2500})
    for part in range(4):
        ch.append({"key": f"history/text-and-bytes/{part}", "kind": "history", "part": part, "cost": 1500})
    return ch


# path from `start` down to each block kind: list of (alias, keyword, kind)
PARENTS = {
    "http_config": [("http_config", "http-config", "http_config")],
    "https_certificate": [("https_certificate", "https-certificate", "https_certificate")],
    "code_signer": [("code_signer", "code-signer", "code_signer")],
    "http_stager": [("http_stager", "http-stager", "http_stager")],
    "http_options": [("http_get", "http-get", "http_get"), ("server", "server", "http_options")],
    "http_get": [("http_get", "http-get", "http_get")],
    "http_post": [("http_post", "http-post", "http_post")],
    "http_client": [("http_get", "http-get", "http_get"), ("client", "client", "http_client")],
    "stage": [("stage", "stage", "stage")],
    "stage_transform": [("stage", "stage", "stage"), ("transform_x86", "transform-x86", "stage_transform")],
    "process_inject": [("process_inject", "process-inject", "process_inject")],
    "execute": [("process_inject", "process-inject", "process_inject"), ("execute", "execute", "execute")],
    "beacon_gate": [("stage", "stage", "stage"), ("beacon_gate", "beacon_gate", "beacon_gate")],
    "postex": [("post_ex", "post-ex", "postex")],
    "dns_beacon": [("dns_beacon", "dns-beacon", "dns_beacon")],
    "http_beacon": [("http_beacon", "http-beacon", "http_beacon")],
    "start": [],
}


def wrap(kind, stmt):
    """Embed one statement of block kind `kind` in a complete sentence."""
    if kind in ("steps", "termination"):
        steps = [stmt] if kind == "steps" else []
        term = stmt if kind == "termination" else ("s", "print", ("print",), ())
        inner = ("dt", "metadata", "metadata", [(steps, term)])
        kind, stmt = "http_client", inner
    body = [stmt]
    for alias, kw, k in reversed(PARENTS[kind]):
        body = [("b", alias, kw, None, k, body)]
    return body


def string_tokens(tree):
    from lark import Token, Tree

    out = []
    for t in tree.iter_subtrees():
        for c in t.children:
            if isinstance(c, Token) and c.type == "STRING":
                out.append(str(c))
    return out


def check_bytes(acc, cp, b: bytes, do_dict: bool, label):
    from lark import Token

    case = {"kind": "bytes", "data": b.hex()}
    acc.transitions += 1
    try:
        lit = cp.value_to_string(b)
        back = cp.string_token_to_bytes(Token("STRING", lit))
    except Exception as e:  # noqa
        acc.case((label, b), outcome="exc")
        acc.fail("C12/convert/exception", case, b.hex(), f"{type(e).__name__}: {e}")
        return
    acc.case((label, b), nontrivial=bool(b), outcome=lit if len(b) < 2 else len(lit))
    if back != b:
        acc.fail("C12/convert/roundtrip", case, b.hex(), {"literal": lit, "back": back.hex() if isinstance(back, bytes) else repr(back)})
        return
    # independent reading of the literal
    try:
        if RP.decode_literal(lit) != b:
            acc.fail("C12/convert/literal-not-documented-escapes", case, b.hex(), lit)
            return
    except Exception as e:  # noqa
        acc.fail("C12/convert/literal-not-documented-escapes", case, b.hex(), f"{lit!r}: {e}")
        return
    src = f"set useragent {lit};"
    try:
        toks = [(t.type, str(t)) for t in cp.c2profile_parser.lex(src)]
    except Exception as e:  # noqa
        acc.fail("C12/lex/exception", case, "4 tokens", f"{lit!r}: {type(e).__name__}: {e}")
        return
    if [t[0] for t in toks] != ["SET", "OPTION", "STRING", "SEMICOLON"] or toks[2][1] != lit:
        acc.fail("C12/lex/not-one-string-token", case, ["SET", "OPTION", "STRING", "SEMICOLON"], toks[:8])
        return
    if RP.tokenize(src) != ["set", "useragent", lit, ";"]:
        acc.fail("C12/lex/reference-tokenizer-disagrees", case, ["set", "useragent", lit, ";"], RP.tokenize(src))
        return
    try:
        tree = cp.c2profile_parser.parse(src)
        ok = len(tree.children) == 1 and tree.children[0].data == "option" and string_tokens(tree) == [lit]
    except Exception as e:  # noqa
        acc.fail("C12/parse/exception", case, "one statement", f"{lit!r}: {type(e).__name__}: {e}")
        return
    if not ok:
        acc.fail("C12/parse/not-one-statement", case, "one option statement", str(tree)[:300])
        return
    src2 = "http-get { client { metadata { prepend %s; print; } } }" % lit
    try:
        prof = cp.C2Profile.from_text(src2)
        md = [t for t in prof.tree.iter_subtrees() if t.data == "steps"]
        ok = len(md) == 1 and len(md[0].children) == 1 and md[0].children[0].data == "prepend" and string_tokens(prof.tree) == [lit]
        if ok and do_dict:
            d = prof.as_dict()
            ok = d == {"http-get.client.metadata": [("prepend", b), "print"]}
            if not ok:
                acc.fail("C12/list-property/dict", case, {"http-get.client.metadata": [["prepend", b.hex()], "print"]}, repr(d)[:300])
                return
            txt = prof.as_text()
            if RP.tokenize(txt) != RP.tokenize(src2):
                acc.fail("C12/list-property/text", case, RP.tokenize(src2), RP.tokenize(txt))
                return
    except Exception as e:  # noqa
        acc.fail("C12/list-property/exception", case, "parsed", f"{lit!r}: {type(e).__name__}: {e}")
        return
    if not ok:
        acc.fail("C12/list-property/structure", case, "prepend LIT; print;", str(prof.tree)[:300])
        return
    if do_dict and (len(b) <= 1 or 0x5C in b or 0x22 in b or 0x27 in b or (b[0] + b[-1]) % 4 == 0):
        # the same bytes handed to the block builder as step and termination arguments, printed and read back (every
        # string with a backslash or quote, every string of length <= 1, a quarter of the others)
        want = {"http-post.client.id": [("prepend", b), ("header", b)], "http-post.client.output": [("append", b), ("parameter", b)]}
        try:
            built = cp.C2Profile()
            client = cp.HttpOptionsBlock(id=cp.DataTransformBlock(steps=[("prepend", b), ("header", b)]), output=cp.DataTransformBlock(steps=[("append", b), ("parameter", b)]))
            built.set_config_block("http_post", cp.HttpPostBlock(client=client))
            d1 = built.as_dict()
            d2 = cp.C2Profile.from_text(built.as_text()).as_dict()
        except Exception as e:  # noqa
            acc.fail("C12/builder/exception", case, "built profile", f"{type(e).__name__}: {e}")
            return
        if d1 != want or d2 != want:
            acc.fail("C12/builder/step-or-termination-argument", case, repr(want)[:300], repr(d1 if d1 != want else d2)[:300])


def chunk_bytes2(chunk, acc):
    from vmc import profile_env

    cp = profile_env.install(True)
    every = BOUNDS[acc.tier]["dict_every"]
    n = 0
    for a in range(chunk["hi"], chunk["hi"] + 8):
        acc.states += 1
        check_bytes(acc, cp, bytes([a]), True, "b1")
        for b in range(256):
            n += 1
            acc.states += 1
            check_bytes(acc, cp, bytes([a, b]), n % every == 0, "b2")
    if chunk["hi"] == 0:
        check_bytes(acc, cp, b"", True, "b0")
    if chunk["hi"] == 0x20:
        # every pair and triple over the characters the text renderer itself treats specially, always rendered with
        # as_text() and read back (quick runs only every 8th of the 65 536 pairs through the renderer)
        special = (0x20, 0x3B, 0x7B, 0x7D, 0x23, 0x22, 0x5C, 0x0A, 0x09, 0x27)
        for w in sequences(special, 3, 2):
            acc.states += 1
            check_bytes(acc, cp, bytes(w), True, "special")
    acc.sample({"bytes": f"{chunk['hi']:02x}22", "literal": cp.value_to_string(bytes([chunk["hi"], 0x22]))})


def chunk_syntax(chunk, acc):
    from vmc import profile_env

    cp = profile_env.install(True)
    every = BOUNDS[acc.tier]["dict_every"]
    n = 0
    for rest in sequences(SYNTAX, BOUNDS[acc.tier]["syntax_len"] - 1):
        b = bytes((chunk["first"],) + rest)
        n += 1
        acc.states += 1
        check_bytes(acc, cp, b, len(b) <= 2 or n % every == 0, "syn")
    acc.sample({"bytes": bytes((chunk["first"], 0x5C, 0x22)).hex(), "literal": cp.value_to_string(bytes((chunk["first"], 0x5C, 0x22)))})


def chunk_productions(chunk, acc):
    from vmc import profile_env

    cp = profile_env.install(True)
    kind = chunk["blockkind"]
    forms = [f for k, f in RP.all_forms() if k == kind and f[0] == "s" and f[3] > 0]
    strings = [b""] + [bytes([a]) for a in range(256)] + [bytes(w) for w in sequences(SYNTAX, 2, 2)]
    for f in forms:
        acc.states += 1
        for b in strings:
            lit = cp.value_to_string(b)
            lits = tuple([lit] * f[3]) if f[3] == 1 else (lit, cp.value_to_string(b"k" + b))
            st = ("s", f[1], f[2], lits)
            sent = wrap(kind, st)
            toks = RP.sentence_tokens(sent)
            src = RP.render(toks)
            acc.transitions += 1
            acc.case((f[2], b), nontrivial=bool(b))
            try:
                tree = cp.c2profile_parser.parse(src)
                got = string_tokens(tree)
            except Exception as e:  # noqa
                acc.fail("C12/production/parse-exception", {"kind": "production", "form": RP.form_id(kind, f), "data": b.hex(), "source": src}, list(lits), f"{type(e).__name__}: {str(e)[:200]}")
                continue
            if got != list(lits):
                acc.fail("C12/production/string-tokens", {"kind": "production", "form": RP.form_id(kind, f), "data": b.hex(), "source": src}, list(lits), got)
    # the same statements written by the block builder's keyword arguments from bytes values: one statement per
    # value (or pair), whose literal(s) read back as exactly those bytes
    from lark import Token
    from vmc.checks.c11 import KIND_CLASS_NAMES, live_alias

    if kind == "start":
        # global options through C2Profile.set_option() and through C2Profile(**kwargs)
        for f in forms:
            name = f[2][-1]
            for b in BUILDER_BYTES:
                for mode in ("set_option", "kwargs"):
                    if mode == "kwargs" and not name.isidentifier():
                        continue
                    acc.transitions += 1
                    acc.case(("builder-global", name, b, mode), nontrivial=True)
                    case = {"kind": "builder", "block": "C2Profile", "keyword": name, "data": b.hex(), "mode": mode}
                    try:
                        if mode == "set_option":
                            prof = cp.C2Profile()
                            prof.set_option(name, b)
                        else:
                            prof = cp.C2Profile(**{name: b})
                        lits = string_tokens(prof.tree)
                        got = [cp.string_token_to_bytes(Token("STRING", x)) for x in lits]
                        back = string_tokens(cp.C2Profile.from_text(prof.as_text()).tree)
                    except Exception as e:  # noqa
                        acc.fail("C12/builder/keyword-exception", case, b.hex(), f"{type(e).__name__}: {str(e)[:200]}")
                        continue
                    if len(prof.tree.children) != 1 or got != [b] or back != lits:
                        acc.fail("C12/builder/keyword-value", case, {"statements": 1, "values": [b.hex()]}, {"statements": len(prof.tree.children), "values": [g.hex() if isinstance(g, bytes) else repr(g) for g in got], "reparsed": back})
    if kind in KIND_CLASS_NAMES:
        cls = getattr(cp, KIND_CLASS_NAMES[kind])
        for f in forms:
            st = ("s", f[1], f[2], tuple(['"v"'] * f[3]))
            alias = live_alias(cp, kind, st)
            if not alias.isidentifier() or f[3] > 2 or (f[3] == 2 and not callable(getattr(cls, alias, None))):
                continue
            for b in BUILDER_BYTES:
                acc.transitions += 1
                acc.case(("builder", f[2], b), nontrivial=True)
                want = [b] if f[3] == 1 else [b, b"k" + b]
                case = {"kind": "builder", "block": KIND_CLASS_NAMES[kind], "keyword": alias, "data": b.hex()}
                try:
                    blk = cls(**{alias: b if f[3] == 1 else [(b, b"k" + b)]})
                    stmts = blk.tree.children
                    lits = string_tokens(blk.tree)
                    got = [cp.string_token_to_bytes(Token("STRING", x)) for x in lits]
                except Exception as e:  # noqa
                    acc.fail("C12/builder/keyword-exception", case, [w.hex() for w in want], f"{type(e).__name__}: {str(e)[:200]}")
                    continue
                if len(stmts) != 1 or got != want:
                    acc.fail("C12/builder/keyword-value", case, {"statements": 1, "values": [w.hex() for w in want]}, {"statements": len(stmts), "values": [g.hex() if isinstance(g, bytes) else repr(g) for g in got]})
    acc.sample({"block_kind": kind, "forms": [RP.form_id(kind, f) for f in forms][:6], "strings": len(strings)})


def check_escape(acc, cp, atoms, do_parse):
    from lark import Token

    lit = '"' + "".join(a for a, _ in atoms) + '"'
    exp = b"".join(v for _, v in atoms)
    acc.transitions += 1
    acc.case(lit, nontrivial=bool(atoms), outcome=exp)
    try:
        got = cp.string_token_to_bytes(Token("STRING", lit))
    except Exception as e:  # noqa
        acc.fail("C12/escape/exception", {"kind": "escape", "literal": lit}, exp.hex(), f"{type(e).__name__}: {e}")
        return
    if got != exp:
        acc.fail("C12/escape/value", {"kind": "escape", "literal": lit}, exp.hex(), got.hex() if isinstance(got, bytes) else repr(got))
        return
    if do_parse:
        try:
            d = cp.C2Profile.from_text("http-post { client { id { append %s; print; } } }" % lit).as_dict()
        except Exception as e:  # noqa
            acc.fail("C12/escape/parse-exception", {"kind": "escape", "literal": lit}, exp.hex(), f"{type(e).__name__}: {e}")
            return
        if d != {"http-post.client.id": [("append", exp), "print"]}:
            acc.fail("C12/escape/parsed-value", {"kind": "escape", "literal": lit}, exp.hex(), repr(d)[:300])


def chunk_escapes(chunk, acc):
    from vmc import profile_env

    cp = profile_env.install(True)
    first = ATOMS[chunk["first"]]
    for rest in sequences(ATOMS, 2):
        acc.states += 1
        check_escape(acc, cp, (first,) + rest, len(rest) <= 1)
    if chunk["first"] == 0:
        check_escape(acc, cp, (), True)
    acc.sample({"literal": '"' + first[0] + '\\x41\\n"', "expect": (first[1] + b"A\n").hex()})


def chunk_escapes_hex(chunk, acc):
    from vmc import profile_env

    cp = profile_env.install(True)
    for v in range(256):
        acc.states += 1
        for fmt in ("\\x%02x", "\\x%02X", "\\u00%02x", "\\u00%02X", "\\u12%02x"):
            check_escape(acc, cp, ((fmt % v, bytes([v])),), fmt in ("\\x%02x", "\\u00%02x"))
            check_escape(acc, cp, (("a", b"a"), (fmt % v, bytes([v])), ("0", b"0")), False)
    acc.sample({"literal": '"\\u00e9"', "expect": "e9"})


def chunk_history(chunk, acc):
    """Conversions do not depend on earlier conversions: the same content converted as text (str) and as bytes, in
    both orders. Text without backslashes is written as it is with double quotes escaped (raw control characters
    stay raw); bytes must still read back identically after the text conversion of the same content."""
    from vmc import profile_env

    cp = profile_env.install(True)
    contents = [bytes(w) for w in sequences(HIST_ALPHA, 3, 1)]
    for i, b in enumerate(contents):
        if i % 4 != chunk["part"]:
            continue
        acc.states += 1
        text = b.decode("latin-1")
        if i % 3 == 0:
            # a malformed literal (truncated escape) decoded in between leaves nothing behind
            from lark import Token

            bad = MALFORMED[(i // 3) % len(MALFORMED)]
            acc.transitions += 1
            try:
                cp.string_token_to_bytes(Token("STRING", bad))  # whatever it answers is not the subject here
            except Exception:  # noqa
                pass
        if i % 2 == 0:
            # text first, then bytes
            try:
                cp.value_to_string(text)
            except Exception as e:  # noqa
                acc.fail("C12/convert/exception", {"kind": "text", "data": b.hex()}, "literal", f"{type(e).__name__}: {e}")
            check_bytes(acc, cp, b, False, "after-text")
        else:
            # bytes first, then text
            check_bytes(acc, cp, b, False, "before-text")
            if 0x5C in b:
                continue
            acc.transitions += 1
            want = '"' + text.replace('"', '\\"') + '"'
            try:
                got = cp.value_to_string(text)
            except Exception as e:  # noqa
                got = f"{type(e).__name__}: {e}"
            acc.case(("text-after-bytes", b), nontrivial=True, outcome=len(got))
            if got != want:
                acc.fail("C12/convert/text-depends-on-history", {"kind": "text-after-bytes", "data": b.hex()}, want, got)
    acc.sample({"contents": "all strings of 1..3 characters over " + repr(bytes(HIST_ALPHA)), "orders": ["text, bytes", "bytes, text"]})


def chunk_uncached(chunk, acc):
    """Cross-check with the real (un-memoised) Reconstructor construction path."""
    from vmc import profile_env

    cp = profile_env.install(False)
    try:
        for b in (b"", b'"', b"\\", b'\\"', b"\n", b"a;b", b"{}#", b"\x00\xff", b"'", b"\\x41"):
            acc.states += 1
            check_bytes(acc, cp, b, True, "uncached")
    finally:
        profile_env.install(True)
    acc.sample({"uncached_strings": 10})


def run_chunk(chunk, acc):
    globals()["chunk_" + chunk["kind"]](chunk, acc)


def replay(case):
    from vmc import profile_env
    from vmc.runner import Acc

    cp = profile_env.install(False)
    a = Acc("replay", "quick", 0)
    if case["kind"] == "bytes":
        check_bytes(a, cp, bytes.fromhex(case["data"]), True, "replay")
    elif case["kind"] in ("text", "text-after-bytes"):
        b = bytes.fromhex(case["data"])
        text = b.decode("latin-1")
        check_bytes(a, cp, b, False, "replay")
        got = cp.value_to_string(text)
        want = '"' + text.replace('"', '\\"') + '"'
        if 0x5C not in b and got != want:
            return {"ok": False, "expected": want, "observed": got}
    elif case["kind"] == "escape":
        lit = case["literal"]
        from lark import Token

        try:
            got = cp.string_token_to_bytes(Token("STRING", lit))
            exp = RP.decode_literal(lit)
            return {"ok": got == exp, "expected": exp.hex(), "observed": got.hex() if isinstance(got, bytes) else repr(got)}
        except Exception as e:  # noqa
            return {"ok": False, "expected": "bytes", "observed": f"{type(e).__name__}: {e}"}
    elif case["kind"] == "builder":
        if case["block"] == "C2Profile":
            chunk_productions({"blockkind": "start"}, a)
        for k, c in __import__("vmc.checks.c11", fromlist=["x"]).KIND_CLASS_NAMES.items():
            if c == case["block"]:
                chunk_productions({"blockkind": k}, a)
        v = next((v for v in a.violations if v["case"].get("keyword") == case["keyword"] and v["case"].get("data") == case["data"]), None)
        return {"ok": v is None, "expected": v["expected"] if v else None, "observed": v["observed"] if v else None}
    elif case["kind"] == "production":
        try:
            tree = cp.c2profile_parser.parse(case["source"])
            got = string_tokens(tree)
            exp = [t for t in RP.tokenize(case["source"]) if t.startswith('"')]
            return {"ok": got == exp, "expected": exp, "observed": got}
        except Exception as e:  # noqa
            return {"ok": False, "expected": "parse", "observed": f"{type(e).__name__}: {str(e)[:300]}"}
    v = a.violations[0] if a.violations else None
    return {"ok": v is None, "expected": v["expected"] if v else None, "observed": v["observed"] if v else None}
