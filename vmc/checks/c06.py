"""C06 - Beacon metadata survives RSA transport; session keys derive from it (forms G + D)."""

from __future__ import annotations

import hashlib
import itertools
import struct

from vmc.ref import keys as K
from vmc.runner import lcg

ID = "C06"
LEVEL = "model_checking"
RULE = (
    "G: every metadata field at the boundary values of its width (one field at a time; all pairs in thorough) and "
    "every info length 0..limit for RSA-1024 and RSA-2048 is encrypted with encrypt_metadata and decrypted with "
    "decrypt_metadata and compared field for field; limit+1 must be refused. D: the blob family (wrong lengths, "
    "all-zero, all-ff, LCG blobs, encryptions under the other key, PKCS#1 encryptions of non-metadata plaintexts) must "
    "raise ValueError and nothing else. Key derivation for a structured family of seeds against hashlib. "
    ' Added: preset / stale size fields and re-used metadata objects, blobs longer than one RSA block, every bad blob twice through a traffic decoder (verification on and off), decoder key material combinations, per-call keys. '
    "non-trivial = any field or the info string differs from the all-default metadata, or a blob is rejected"
)
ASSUMPTIONS = [
    "PKCS#1 v1.5 padding bytes come from a deterministic scripted generator (Crypto.Random.get_random_bytes replaced)",
    "embedded RSA-1024/2048 test keys stand for all keys of that size",
    "a plaintext with the right magic but an inconsistent size field is outside the statement and not generated",
]
BOUNDS = {"quick": {"pairs": False}, "thorough": {"pairs": True}}

FIELDS = [
    ("ansi_cp", 16), ("oem_cp", 16), ("bid", 32), ("pid", 32), ("port", 16), ("flag", 8), ("ver_major", 8),
    ("ver_minor", 8), ("ver_build", 16), ("ptr_x64", 32), ("ptr_gmh", 32), ("ptr_gpa", 32), ("ip", 32),
]
HEADER_LEN = 59  # magic, size, aes_rand and the fixed fields
LIMIT = {1024: 128 - 11 - HEADER_LEN, 2048: 256 - 11 - HEADER_LEN}


def boundary(bits):
    m = (1 << bits) - 1
    return [0, 1, m // 2 + 1, m - 1, m]


def plan(tier, seed):
    ch = []
    for bits in (1024, 2048):
        for part in range(4):
            ch.append({"key": f"info/{bits}/{part}", "kind": "info", "bits": bits, "part": part, "cost": 200 * (bits // 1024) ** 2})
        ch.append({"key": f"fields/{bits}", "kind": "fields", "bits": bits, "cost": 200 * (bits // 1024) ** 2})
        if BOUNDS[tier]["pairs"] or bits == 1024:
            for i in range(len(FIELDS)):
                ch.append({"key": f"pairs/{bits}/{i}", "kind": "pairs", "bits": bits, "first": i, "cost": 800 * (bits // 1024) ** 2})
        ch.append({"key": f"blobs/{bits}", "kind": "blobs", "bits": bits, "cost": 300 * (bits // 1024) ** 2})
    ch.append({"key": "derive", "kind": "derive", "cost": 50})
    return ch


def call(f, *a, **k):
    try:
        return f(*a, **k)
    except Exception as e:  # noqa
        return f"EXC {type(e).__name__}: {e}"


class ScriptedRandom:
    """Deterministic replacement for Crypto.Random.get_random_bytes (non-zero bytes are selected by PKCS#1 itself)."""

    def __init__(self, seed):
        self.n = seed

    def __call__(self, n):
        self.n += 1
        return bytes(lcg(n, self.n))

    def __enter__(self):
        import Crypto.Random

        self.mod = Crypto.Random
        self.real = Crypto.Random.get_random_bytes
        Crypto.Random.get_random_bytes = self
        return self

    def __exit__(self, *exc):
        self.mod.get_random_bytes = self.real
        return False


def make_metadata(c2, values, info, aes_rand):
    m = c2.BeaconMetadata()
    m.magic = 0xBEEF
    m.aes_rand = aes_rand
    for name, _ in FIELDS:
        setattr(m, name, values.get(name, 0))
    m.info = info
    return m


def roundtrip(acc, c2, bits, which, values, info, aes_rand, tag, preset_size=None, reuse=None):
    """preset_size: the caller left an arbitrary value in the size field; reuse: the same metadata object was
    encrypted before with another info string (both must still be 'made consistent' on encryption)."""
    key = K.key(bits, which)
    pub = key.public_key()
    m = make_metadata(c2, values, info if reuse is None else reuse, aes_rand)
    if reuse is not None:
        with ScriptedRandom(acc.seed + 999):
            call(c2.encrypt_metadata, m, pub)
        m.info = info
    if preset_size is not None:
        m.size = preset_size
    acc.transitions += 1
    case = {"kind": "roundtrip", "bits": bits, "which": which, "values": values, "info": info.hex(), "aes_rand": aes_rand.hex(), "preset_size": preset_size, "reuse": None if reuse is None else reuse.hex()}
    with ScriptedRandom(acc.seed + len(info)):
        blob = call(c2.encrypt_metadata, m, pub)
    nontrivial = bool(info) or any(values.values()) or any(aes_rand)
    if len(info) > LIMIT[bits]:
        acc.case((tag, bits), nontrivial=True, outcome=str(blob)[:30])
        if not (isinstance(blob, str) and blob.startswith("EXC ValueError")):
            acc.fail("C06/encrypt/over-limit-not-refused", case, "ValueError", blob if isinstance(blob, str) else f"{len(blob)} bytes")
        return
    if isinstance(blob, str) or len(blob) != bits // 8:
        acc.case((tag, bits), nontrivial=nontrivial, outcome=str(blob)[:30])
        acc.fail("C06/encrypt/failed", case, f"{bits // 8}-byte blob", blob if isinstance(blob, str) else f"{len(blob)} bytes")
        return
    # independent decryption: raw RSA + PKCS#1 v1.5 unpadding + struct layout
    em = pow(int.from_bytes(blob, "big"), key.d, key.n).to_bytes(bits // 8, "big")
    ok_pad = em[:2] == b"\x00\x02" and b"\x00" in em[2:]
    pt = em[em.index(b"\x00", 2) + 1 :] if ok_pad else b""
    exp_pt = struct.pack(">II16sHHIIHBBBHIIII", 0xBEEF, HEADER_LEN - 8 + len(info), aes_rand, *[values.get(n, 0) for n, _ in FIELDS]) + info
    if pt != exp_pt:
        acc.case((tag, bits), nontrivial=nontrivial, outcome="wire")
        acc.fail("C06/encrypt/wire-format", case, exp_pt.hex()[:160], pt.hex()[:160])
        return
    got = call(c2.decrypt_metadata, blob, key)
    if isinstance(got, str):
        acc.case((tag, bits), nontrivial=nontrivial, outcome=got[:30])
        acc.fail("C06/decrypt/failed", case, "BeaconMetadata", got)
        return
    obs = {n: getattr(got, n) for n, _ in FIELDS}
    obs.update(magic=got.magic, size=got.size, aes_rand=bytes(got.aes_rand), info=bytes(got.info))
    exp = {n: values.get(n, 0) for n, _ in FIELDS}
    exp.update(magic=0xBEEF, size=HEADER_LEN - 8 + len(info), aes_rand=aes_rand, info=info)
    acc.case((tag, bits), nontrivial=nontrivial, outcome=(len(info), tuple(sorted(values.items()))))
    if obs != exp:
        diff = sorted(k for k in exp if exp[k] != obs[k])
        acc.fail("C06/roundtrip/field/" + "+".join(diff), case, {k: _v(exp[k]) for k in diff}, {k: _v(obs[k]) for k in diff})
        return
    if got.size != len(got.dumps()) - 8:
        acc.fail("C06/roundtrip/size-inconsistent", case, len(got.dumps()) - 8, got.size)


def _v(x):
    return x.hex() if isinstance(x, (bytes, bytearray)) else x


def chunk_info(chunk, acc):
    from dissect.cobaltstrike import c2

    bits = chunk["bits"]
    for ln in range(0, LIMIT[bits] + 2):
        if ln % 4 != chunk["part"]:
            continue
        acc.states += 1
        info = bytes((0x20 + (i * 7 + ln) % 95) for i in range(ln))
        rand = bytes(lcg(16, acc.seed + ln))
        roundtrip(acc, c2, bits, acc.seed % 2, {"bid": 1234, "pid": 4321}, info, rand, ("info", ln))
        if ln in (0, 1, 7, LIMIT[bits]):
            # the size field is made consistent whatever it held before, and for a re-used metadata object
            for ps in (1, 51, 51 + ln + 1, 0xFFFFFFFF):
                roundtrip(acc, c2, bits, acc.seed % 2, {"bid": 2}, info, rand, ("preset-size", ln, ps), preset_size=ps)
            for prev in (b"", b"a-longer-previous-info-string", info + b"x"):
                roundtrip(acc, c2, bits, acc.seed % 2, {"bid": 2}, info, rand, ("reuse", ln, prev), reuse=prev)
        if ln in (0, 1, LIMIT[bits]):
            roundtrip(acc, c2, bits, (acc.seed + 1) % 2, {}, bytes([0xFF, 0x00, 0x09][:ln]).ljust(ln, b"\x00"), b"\x00" * 16, ("info-bin", ln))
    acc.sample({"rsa_bits": bits, "info_lengths": f"0..{LIMIT[bits] + 1}", "limit": LIMIT[bits]})


RANDS = [b"\x00" * 16, b"\xff" * 16, bytes(range(16)), bytes(range(15, -1, -1))] + [(1 << (8 * i)).to_bytes(16, "big") for i in range(16)]


def chunk_fields(chunk, acc):
    from dissect.cobaltstrike import c2

    bits = chunk["bits"]
    for name, w in FIELDS:
        for v in boundary(w):
            acc.states += 1
            roundtrip(acc, c2, bits, acc.seed % 2, {name: v}, b"PC\tuser\tproc", bytes(lcg(16, acc.seed + 3)), ("field", name, v))
    for i, r in enumerate(RANDS):
        acc.states += 1
        roundtrip(acc, c2, bits, acc.seed % 2, {}, b"i", r, ("rand", i))
    allmax = {n: (1 << w) - 1 for n, w in FIELDS}
    roundtrip(acc, c2, bits, acc.seed % 2, allmax, b"", b"\xff" * 16, ("allmax",))
    acc.sample({"rsa_bits": bits, "field": "bid", "values": boundary(32)})


def chunk_pairs(chunk, acc):
    from dissect.cobaltstrike import c2

    bits = chunk["bits"]
    n1, w1 = FIELDS[chunk["first"]]
    for n2, w2 in FIELDS[chunk["first"] + 1 :]:
        for v1 in boundary(w1):
            for v2 in boundary(w2):
                acc.states += 1
                roundtrip(acc, c2, bits, acc.seed % 2, {n1: v1, n2: v2}, b"x\ty\tz", bytes(lcg(16, acc.seed + 5)), ("pair", n1, v1, n2, v2))
    acc.sample({"rsa_bits": bits, "pair": [n1, FIELDS[-1][0]]})


def pkcs1_encrypt(key, msg: bytes, seed: int) -> bytes:
    k = key.size_in_bytes()
    ps = bytes((b % 255) + 1 for b in lcg(k - 3 - len(msg), seed))
    em = b"\x00\x02" + ps + b"\x00" + msg
    return pow(int.from_bytes(em, "big"), key.e, key.n).to_bytes(k, "big")


def chunk_blobs(chunk, acc):
    from dissect.cobaltstrike import c2

    bits = chunk["bits"]
    key = K.key(bits, acc.seed % 2)
    other = K.key(bits, (acc.seed + 1) % 2)
    k = bits // 8
    blobs = [("empty", b""), ("k-1", bytes(lcg(k - 1, 1))), ("k+1", bytes(lcg(k + 1, 2))), ("zero", b"\x00" * k), ("ff", b"\xff" * k), ("one", b"\x00" * (k - 1) + b"\x01")]
    blobs += [(f"lcg{i}", b"\x00" + bytes(lcg(k - 1, 100 + i))) for i in range(64)]
    m = make_metadata(c2, {"bid": 2}, b"a\tb\tc", bytes(16))
    with ScriptedRandom(acc.seed):
        blobs.append(("other-key", c2.encrypt_metadata(m, other.public_key())))
    # valid PKCS#1 encryptions of plaintexts that are not metadata: wrong magic, every length up to the limit
    good = struct.pack(">II16sHHIIHBBBHIIII", 0xBEEF, 51, bytes(16), *([0] * 13))
    for ln in sorted(set(range(0, 70)) | {k - 11}):
        pt = (b"\xde\xad\xbe\xef" + good[4:] + bytes(lcg(200, 9)))[:ln]
        blobs.append((f"wrong-magic-{ln}", pkcs1_encrypt(key, pt, ln)))
    # no magic, and a size field that announces more (or fewer) info bytes than are present
    for ln in (59, 60, 64, 100, k - 11):
        for size in (0xFFFF, 0xFFFFFFFF, 52, 0, 50):
            pt = (b"\xde\xad\xbe\xef" + struct.pack(">I", size) + good[8:] + bytes(lcg(200, 11)))[:ln]
            blobs.append((f"wrong-magic-size{size:x}-{ln}", pkcs1_encrypt(key, pt, ln + size % 97)))
        blobs.append((f"ff-{ln}", pkcs1_encrypt(key, b"\xff" * ln, ln)))
        blobs.append((f"A-{ln}", pkcs1_encrypt(key, b"A" * ln, ln + 1)))
    for ln in (0, 1, 3):  # shorter than the magic itself
        blobs.append((f"short-{ln}", pkcs1_encrypt(key, good[:ln], 77 + ln)))
    # a complete, consistent metadata plaintext behind a few bytes of junk (the magic is then NOT at offset 0)
    full = struct.pack(">II16sHHIIHBBBHIIII", 0xBEEF, 51 + 5, bytes(range(16)), *([0] * 13)) + b"a\tb\tc"
    for junk in (b"\x00", b"\x01\x02", b"\xff\xff\xff", b"JUNKJUNK", b"\x00\x00\xbe"):
        blobs.append((f"junk{len(junk)}+metadata", pkcs1_encrypt(key, junk + full, 500 + len(junk))))
    # a genuine ciphertext with something in front of / behind it, cut short, or given twice: not one RSA block
    with ScriptedRandom(acc.seed + 5):
        valid = c2.encrypt_metadata(m, key.public_key())
    for name, blob in (("valid+00", valid + b"\x00"), ("valid+16", valid + bytes(lcg(16, 3))), ("valid+valid", valid + valid), ("00+valid", b"\x00" + valid), ("valid-1", valid[:-1]), ("valid[1:]", valid[1:]), ("valid+k", valid + bytes(k))):
        blobs.append((name, blob))
    for name, blob in blobs:
        acc.states += 1
        acc.transitions += 1
        got = call(c2.decrypt_metadata, blob, key)
        acc.case(name, nontrivial=True, outcome=str(got)[:40])
        if not (isinstance(got, str) and got.startswith("EXC ValueError")):
            sig = "C06/decrypt/bad-blob-accepted" if not isinstance(got, str) else "C06/decrypt/wrong-exception/" + got.split()[1].rstrip(":")
            acc.fail(sig, {"kind": "blob", "bits": bits, "name": name, "blob": blob.hex(), "which": acc.seed % 2}, "ValueError", got if isinstance(got, str) else repr(got)[:200])
    # the same blobs arriving as the metadata of a check-in at a traffic decoder that holds the private key (signature
    # verification on and off), each presented twice: rejected with ValueError both times, nothing is reported
    from dissect.cobaltstrike import beacon
    from vmc.ref import config as RC

    bconfig = beacon.BeaconConfig(RC.http_block(key_bits=bits, key_which=acc.seed % 2))
    for verify in (True, False):
        dec = c2.C2Http(bconfig, rsa_private_key=key, verify_hmac=verify)
        for name, blob in blobs:
            if not blob:
                continue  # (no metadata at all is not a blob)
            req = dec.transform_get.transform(c2.C2Data(metadata=blob), request=c2.HttpRequest(method=dec.get_verb, uri=dec.get_uris[0], params={}, headers={}, body=b""))
            for attempt in (1, 2):
                acc.states += 1
                acc.transitions += 1
                got = call(lambda: [type(p).__name__ for p in dec.iter_recover_http(req)])
                acc.case(("decoder", verify, name, attempt), nontrivial=True, outcome=str(got)[:40])
                if not (isinstance(got, str) and got.startswith("EXC ValueError")):
                    sig = "C06/decoder/bad-blob-" + ("accepted" if got else "ignored") if not isinstance(got, str) else "C06/decoder/wrong-exception/" + got.split()[1].rstrip(":")
                    acc.fail(sig + ("/second-time" if attempt == 2 else ""), {"kind": "blob_decoder", "bits": bits, "name": name, "verify_hmac": verify, "attempt": attempt, "which": acc.seed % 2}, "ValueError", got if isinstance(got, str) else repr(got)[:200])
                    break
    acc.sample({"rsa_bits": bits, "blobs": [n for n, _ in blobs[:8]] + ["...", "wrong-magic-<len>", "other-key"]})


def chunk_derive(chunk, acc):
    from dissect.cobaltstrike import c2

    seeds = RANDS + [bytes(lcg(16, acc.seed + i)) for i in range(8)] + [bytes([b]) * 16 for b in (1, 0x41, 0x80)]
    for r in seeds:
        acc.states += 1
        acc.transitions += 1
        d = hashlib.sha256(r).digest()
        exp = (d[:16], d[16:])
        got = call(c2.derive_aes_hmac_keys, r)
        bk = call(c2.BeaconKeys.from_aes_rand, r)
        m = make_metadata(c2, {}, b"", r)
        bm = call(c2.BeaconKeys.from_beacon_metadata, m)
        acc.case(r, outcome=d[:4])
        if got != exp:
            acc.fail("C06/derive/keys", {"kind": "derive", "aes_rand": r.hex()}, [e.hex() for e in exp], got if isinstance(got, str) else [g.hex() for g in got])
        for label, b in (("from_aes_rand", bk), ("from_beacon_metadata", bm)):
            if isinstance(b, str) or (b.aes_key, b.hmac_key, b.iv) != (exp[0], exp[1], b"abcdefghijklmnop"):
                acc.fail("C06/derive/" + label, {"kind": "derive", "aes_rand": r.hex()}, [e.hex() for e in exp], b if isinstance(b, str) else [b.aes_key.hex(), b.hmac_key.hex()])
        iv = bytes(range(16, 32))
        b2 = call(c2.BeaconKeys.from_aes_rand, r, iv)
        if isinstance(b2, str) or b2.iv != iv or b2.aes_key != exp[0]:
            acc.fail("C06/derive/custom-iv", {"kind": "derive", "aes_rand": r.hex()}, iv.hex(), repr(b2)[:100])
    # the same metadata encrypted for one key after the other: every blob belongs to the key it was made for
    for r in seeds[:2]:
        for bits, which in ((1024, 0), (1024, 1), (2048, 0), (2048, 1), (1024, 0)):
            acc.states += 1
            roundtrip(acc, c2, bits, which, {"bid": 1234, "pid": 77}, b"PC\tuser\tproc", r, ("same-metadata", r, bits, which))
    # a traffic decoder that is given the 16 random bytes works with the keys derived from them - whatever other key
    # material accompanies them (an explicit HMAC key, the RSA private key, verification switched off)
    from dissect.cobaltstrike import beacon
    from vmc.ref import config as RC

    bconfig = beacon.BeaconConfig(RC.http_block())
    other = bytes(lcg(16, acc.seed + 77))
    for r in seeds[:6]:
        d = hashlib.sha256(r).digest()
        exp = (d[:16], d[16:])
        for label, kw in (("alone", {}), ("with-hmac-key", {"hmac_key": other}), ("with-derived-hmac-key", {"hmac_key": d[16:]}), ("with-rsa-key", {"rsa_private_key": K.key(1024, 0)}), ("with-hmac-key-unverified", {"hmac_key": other, "verify_hmac": False})):
            acc.states += 1
            acc.transitions += 1
            dec = call(lambda: c2.C2Http(bconfig, aes_rand=r, **kw))
            got = dec if isinstance(dec, str) else (dec.aes_key, dec.hmac_key, dec.beacon_keys.aes_key, dec.beacon_keys.hmac_key)
            acc.case(("decoder", r, label), outcome=d[:4])
            if got != exp + exp:
                acc.fail("C06/derive/decoder-keys/" + label, {"kind": "derive", "aes_rand": r.hex()}, [e.hex() for e in exp], got if isinstance(got, str) else [None if g is None else bytes(g).hex() for g in got])
    # a decoder that holds only the RSA key learns its session keys from the first check-in it decodes - also when
    # that message is decoded with caller-supplied per-call keys (external session tracking)
    priv = K.key(1024, 0)
    for r in seeds[:4]:
        d = hashlib.sha256(r).digest()
        m = make_metadata(c2, {"bid": 1234}, b"PC\tu\tp", r)
        with ScriptedRandom(acc.seed + 9):
            blob = c2.encrypt_metadata(m, priv.public_key())
        for label, per_call in (("no-keys-argument", None), ("complete-other-keys", c2.BeaconKeys(other, other[::-1])), ("complete-derived-keys", c2.BeaconKeys(d[:16], d[16:])), ("aes-only", c2.BeaconKeys(other, None))):
            acc.states += 1
            acc.transitions += 1
            dec = c2.C2Http(bconfig, rsa_private_key=priv)
            req = dec.transform_get.transform(c2.C2Data(metadata=blob), request=c2.HttpRequest(method=dec.get_verb, uri=dec.get_uris[0], params={}, headers={}, body=b""))
            out = call(lambda: list(dec.iter_recover_http(req, keys=per_call)) if per_call is not None else list(dec.iter_recover_http(req)))
            got = out if isinstance(out, str) else (len(out), bytes(getattr(out[0], "aes_rand", b"")) if out else None, dec.beacon_keys.aes_key, dec.beacon_keys.hmac_key)
            acc.case(("session", r, label), outcome=d[:4])
            if got != (1, r, d[:16], d[16:]):
                acc.fail("C06/derive/decoder-session-keys/" + label, {"kind": "derive", "aes_rand": r.hex()}, [1, r.hex(), d[:16].hex(), d[16:].hex()], got if isinstance(got, str) else [got[0]] + [None if g is None else bytes(g).hex() for g in got[1:]])
    acc.sample({"aes_rand": RANDS[2].hex(), "aes_key": hashlib.sha256(RANDS[2]).digest()[:16].hex()})


def run_chunk(chunk, acc):
    globals()["chunk_" + chunk["kind"]](chunk, acc)


def replay(case):
    from dissect.cobaltstrike import c2
    from vmc.runner import Acc

    a = Acc("replay", "quick", 0)
    if case["kind"] == "roundtrip":
        roundtrip(a, c2, case["bits"], case["which"], case["values"], bytes.fromhex(case["info"]), bytes.fromhex(case["aes_rand"]), "replay", preset_size=case.get("preset_size"), reuse=None if case.get("reuse") is None else bytes.fromhex(case["reuse"]))
    elif case["kind"] == "blob_decoder":
        chunk_blobs({"bits": case["bits"]}, a)
    elif case["kind"] == "blob":
        got = call(c2.decrypt_metadata, bytes.fromhex(case["blob"]), K.key(case["bits"], case["which"]))
        ok = isinstance(got, str) and got.startswith("EXC ValueError")
        return {"ok": ok, "expected": "ValueError", "observed": got if isinstance(got, str) else repr(got)[:200]}
    else:
        chunk_derive({}, a)
    v = a.violations[0] if a.violations else None
    return {"ok": v is None, "expected": v["expected"] if v else None, "observed": v["observed"] if v else None}
