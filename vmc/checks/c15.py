"""C15 - Pattern scanners report exactly the true occurrences.

Form G, exhaustive: every (haystack, needle, read-buffer size, start offset, limit) over a small alphabet is executed
against utils.iter_find_needle and compared with a naive scan; every short file over the byte values that can make
the ArtifactKit self-referential check true is executed against iter_artifactkit_payloads and compared with a naive
reference scanner; two constructed families cover the real 8192-byte buffer boundaries.
"""

from __future__ import annotations

import io
import itertools
import struct

from vmc.runner import hx, lcg, unhx

ID = "C15"
LEVEL = "model_checking"
RULE = (
    "construction automaton: append one byte from {00,61,62} to the haystack / needle; every node (haystack, needle) "
    "is a state, every (buffer size, start offset, limit) applied to it is a transition executed on the real "
    "iter_find_needle and compared with a naive scan. ArtifactKit: every file up to the length bound over "
    "{00,10,11,14,ff} plus constructed header placements, compared with a naive reference scanner. "
    ' Added: needles of 4-9 bytes with every buffer size, start offsets with a positioned handle, ArtifactKit headers at every offset 0..1199 and around 4096 / 8192 / 16384 / 65536, small scan buffers. '
    "non-trivial = the naive scan or the library reports at least one occurrence/payload"
)
ASSUMPTIONS = [
    "file objects are io.BytesIO (read(n) returns n bytes unless EOF)",
    "with a limit only soundness and completeness-before-the-limit are required, as the statement says",
    "a truncated ArtifactKit header is compared against what a file read returns for the missing bytes (empty)",
]
ALPHA = (0x00, 0x61, 0x62)
BOUNDS = {
    "quick": {"haystack_len": 6, "needle_len": 3, "buffers": [1, 2, 3, 4, 5, 8192], "artifact_len": 7},
    "thorough": {"haystack_len": 8, "needle_len": 4, "buffers": [1, 2, 3, 4, 5, 6, 7, 8192], "artifact_len": 8},
}
AK_ALPHA = (0x00, 0x10, 0x11, 0x14, 0xFF)


def naive_find(hay: bytes, needle: bytes):
    n = len(needle)
    return [i for i in range(0, len(hay) - n + 1) if hay[i : i + n] == needle]


def words(alpha, maxlen, minlen=0):
    for n in range(minlen, maxlen + 1):
        for w in itertools.product(alpha, repeat=n):
            yield bytes(w)


def plan(tier, seed):
    b = BOUNDS[tier]
    chunks = []
    for needle in words(ALPHA, b["needle_len"], 1):
        chunks.append({"key": f"needle/{needle.hex()}", "kind": "needle", "needle": needle.hex(), "cost": 3 ** b["haystack_len"]})
    for pos in (8192, 16384):
        chunks.append({"key": f"straddle/{pos}", "kind": "straddle", "pos": pos, "cost": 2000})
    chunks.append({"key": "zeroneedle", "kind": "zeroneedle", "cost": 500})
    for n in range(4, 10):
        chunks.append({"key": f"longneedle/{n}", "kind": "longneedle", "n": n, "cost": 4000})
    # artifactkit: partition the exhaustive family by first byte
    for first in AK_ALPHA:
        chunks.append({"key": f"ak/all/{first:02x}", "kind": "ak_all", "first": first, "cost": 5 ** b["artifact_len"]})
    chunks.append({"key": "ak/short", "kind": "ak_short", "cost": 10})
    chunks.append({"key": "ak/constructed", "kind": "ak_constructed", "cost": 20000})
    for lo in range(0, 1200, 100):
        chunks.append({"key": f"ak/offsets/{lo}", "kind": "ak_offsets", "lo": lo, "hi": lo + 100, "cost": 6000})
    for lo in (4070, 8170, 9170, 16365, 65500, 70130):
        chunks.append({"key": f"ak/offsets/{lo}", "kind": "ak_offsets", "lo": lo, "hi": lo + 40, "cost": 3000})
    return chunks


# ------------------------------------------------------------------------------------------------------------------
# iter_find_needle
# ------------------------------------------------------------------------------------------------------------------


def run_needle(hay: bytes, needle: bytes, buf: int, start, cur: int, limit: int, move_to=None):
    from dissect.cobaltstrike import utils

    io.DEFAULT_BUFFER_SIZE = buf
    fh = io.BytesIO(hay)
    fh.seek(cur)
    try:
        it = utils.iter_find_needle(fh, needle, start_offset=start, max_offset=limit)
        if move_to is not None:
            fh.seek(move_to)  # the search was prepared; the handle is used for something else before it is consumed
        return list(itertools.islice(it, 200000))
    except Exception as e:  # noqa
        return f"{type(e).__name__}: {e}"


def judge_needle(hay, needle, start_eff, limit, got):
    """Return None if fine, else (signature, expected)."""
    if not isinstance(got, list):
        return "C15/needle/exception", "a list of offsets"
    true = [p for p in naive_find(hay, needle) if p >= start_eff]
    if not limit:
        if got != true:
            if any(g < 0 for g in got):
                return "C15/needle/negative-offset", true
            if len(set(got)) != len(got):
                return "C15/needle/duplicate-offset", true
            if set(got) - set(true):
                return "C15/needle/false-occurrence", true
            if set(true) - set(got):
                return "C15/needle/missed-occurrence", true
            return "C15/needle/order", true
        return None
    ts = set(true)
    if any(g not in ts for g in got):
        return "C15/needle/limit/false-occurrence", {"must_be_subset_of": true}
    must = [p for p in true if p + len(needle) <= limit]
    gs = set(got)
    if any(p not in gs for p in must):
        return "C15/needle/limit/missed-occurrence-before-limit", {"must_include": must}
    return None


STARTS = ((None, 0), (None, 2), (0, 0), (1, 0), (2, 3))  # (start_offset argument, cursor before the call)


def chunk_needle(chunk, acc):
    b = BOUNDS[acc.tier]
    needle = unhx(chunk["needle"])
    for hay in words(ALPHA, b["haystack_len"]):
        acc.states += 1
        true_all = naive_find(hay, needle)
        for buf in b["buffers"]:
            for start, cur in STARTS:
                cur_eff = min(cur, len(hay))
                start_eff = start if start is not None else cur_eff
                for limit in range(0, len(hay) + 2):
                    got = run_needle(hay, needle, buf, start, cur_eff, limit)
                    acc.transitions += 1
                    bad = judge_needle(hay, needle, start_eff, limit, got)
                    key = (hay, buf, start, cur_eff, limit)
                    acc.case(key, nontrivial=bool(true_all) or bool(got), outcome=(tuple(got) if isinstance(got, list) else got))
                    if not bad and start is not None and limit in (0, len(hay)):
                        # an explicit start offset: the result does not depend on where the handle is between the
                        # creation of the search and its consumption
                        for mv in (len(hay), 0):
                            got2 = run_needle(hay, needle, buf, start, cur_eff, limit, move_to=mv)
                            acc.transitions += 1
                            if got2 != got:
                                acc.fail("C15/needle/depends-on-handle-position-after-creation", {"kind": "needle-moved", "hay": hx(hay), "needle": hx(needle), "buffer": buf, "start": start, "cur": cur_eff, "limit": limit, "moved_to": mv}, got, got2)
                                break
                    if bad:
                        sig, exp = bad
                        if len(needle) == 1:
                            sig += "/1-byte-needle"
                        acc.fail(
                            sig,
                            {"kind": "needle", "hay": hay.hex(), "needle": needle.hex(), "buf": buf, "start": start, "cur": cur_eff, "limit": limit},
                            exp,
                            got,
                        )
        if len(hay) == 3 and hay[0] == 0x61:
            acc.sample({"hay": hay.hex(), "needle": needle.hex(), "buffers": b["buffers"], "true_offsets": true_all})
    io.DEFAULT_BUFFER_SIZE = 8192


def chunk_straddle(chunk, acc):
    """Real buffer size; a needle placed at every alignment around a buffer boundary, fillers that partially match."""
    pos = chunk["pos"]
    needles = [b"\x00\x01\x00\x01\x00\x02\x00", b"\xff\xff\xff", b"\x69\x68\x69\x68\x69\x6b\x69", b"ab", b"a"]
    fillers = [b"\x00", b"\xff", b"a", None]
    for needle in needles:
        n = len(needle)
        for filler in fillers:
            for off in range(pos - n - 2, pos + 3):
                total = pos + 64
                base = bytearray(lcg(total, acc.seed + 5) if filler is None else filler * total)
                base[off : off + n] = needle
                hay = bytes(base)
                acc.states += 1
                for limit in (0, off + n, off + n - 1, 1024):
                    got = run_needle(hay, needle, 8192, 0, 0, limit)
                    acc.transitions += 1
                    bad = judge_needle(hay, needle, 0, limit, got)
                    acc.case((needle, filler, off, limit), nontrivial=True, outcome=(len(got) if isinstance(got, list) else got))
                    if bad:
                        acc.fail(
                            bad[0] + "/8192-boundary",
                            {"kind": "straddle", "needle": needle.hex(), "filler": hx(filler), "off": off, "total": total, "limit": limit, "seed": acc.seed},
                            bad[1] if not isinstance(bad[1], list) or len(bad[1]) < 50 else {"n_true": len(bad[1]), "first": bad[1][:10]},
                            got if not isinstance(got, list) or len(got) < 50 else {"n": len(got), "first": got[:10]},
                        )
    acc.sample({"needle": needles[0].hex(), "boundary": pos, "offsets": [pos - 9, pos + 2]})


def chunk_longneedle(chunk, acc):
    """Needles of 4..9 bytes (the library's own needles are 3 and 7 bytes long) with EVERY read-buffer size from 1 to
    needle length + 2, at every offset of a short file, from every start offset: the carry between reads is shorter
    than the needle for the first reads."""
    n = chunk["n"]
    needles = [bytes(range(0x61, 0x61 + n)), b"a" * n, (b"ab" * n)[:n], b"\x00" * (n - 1) + b"\x01", b"\x00\x01\x00\x01\x00\x02\x00\x00\x00"[:n]]
    for needle in needles:
        for off in range(0, 2 * n + 3):
            for filler in (b"\x00", b"a", b"z"):
                hay = filler * off + needle + filler * 3 + (needle if off % 3 == 0 else b"")
                acc.states += 1
                true_all = naive_find(hay, needle)
                for buf in list(range(1, n + 3)) + [8192]:
                    for start, cur in ((None, 0), (0, 0), (None, min(2, len(hay))), (1, 0), (off, 0), (max(0, off - 1), 5)):
                        cur_eff = min(cur, len(hay))
                        start_eff = start if start is not None else cur_eff
                        for limit in (0, off + n, off + n + 1):
                            got = run_needle(hay, needle, buf, start, cur_eff, limit)
                            acc.transitions += 1
                            bad = judge_needle(hay, needle, start_eff, limit, got)
                            acc.case((needle, off, filler, buf, start, cur_eff, limit), nontrivial=bool(true_all) or bool(got), outcome=tuple(got) if isinstance(got, list) else got)
                            if bad:
                                acc.fail(bad[0] + "/long-needle", {"kind": "needle", "hay": hay.hex(), "needle": needle.hex(), "buf": buf, "start": start, "cur": cur_eff, "limit": limit}, bad[1], got)
    io.DEFAULT_BUFFER_SIZE = 8192
    acc.sample({"needle_len": n, "buffers": f"1..{n + 2}, 8192", "needles": [x.hex() for x in needles[:3]]})


def chunk_zeroneedle(chunk, acc):
    """Needles that begin with zero bytes (as the default config header under key 00 does) at and near offset 0."""
    for needle in (b"\x00\x01\x00\x01\x00\x02\x00", b"\x00\x00", b"\x00\x00\x00\x01", b"\x00"):
        for lead in range(0, 4):
            for tail in (b"", b"\x00", b"\x00\x00\x00", b"zz"):
                hay = b"\x00" * lead + needle + tail
                acc.states += 1
                for buf in (1, 2, 3, 7, 8, 8192):
                    got = run_needle(hay, needle, buf, 0, 0, 0)
                    acc.transitions += 1
                    bad = judge_needle(hay, needle, 0, 0, got)
                    acc.case((needle, lead, tail, buf), outcome=tuple(got) if isinstance(got, list) else got)
                    if bad:
                        sig = bad[0] + ("/1-byte-needle" if len(needle) == 1 else "")
                        acc.fail(sig, {"kind": "needle", "hay": hay.hex(), "needle": needle.hex(), "buf": buf, "start": 0, "cur": 0, "limit": 0}, bad[1], got)
    io.DEFAULT_BUFFER_SIZE = 8192
    acc.sample({"needle": "00010001000200", "lead_zero_bytes": [0, 1, 2, 3]})


# ------------------------------------------------------------------------------------------------------------------
# ArtifactKit
# ------------------------------------------------------------------------------------------------------------------


def ref_artifact(data: bytes, start, cur, maxrange):
    out = []
    pos = start if start is not None else cur
    while True:
        if maxrange is not None and pos > maxrange:
            break
        w = data[pos : pos + 4]
        if len(w) != 4:
            break
        if pos + 16 == int.from_bytes(w, "little"):
            size = int.from_bytes(data[pos + 4 : pos + 8], "little")
            key = data[pos + 8 : pos + 12]
            hints = data[pos + 12 : pos + 20]
            enc = data[pos + 20 : pos + 20 + size]
            if key and any(key):
                pay = bytes(c ^ key[i % len(key)] for i, c in enumerate(enc))
            else:
                pay = enc
            out.append((pos, size, key, hints, pay))
        pos += 1
    return out


def run_artifact(data: bytes, start, cur, maxrange):
    from dissect.cobaltstrike import artifact

    fh = io.BytesIO(data)
    fh.seek(cur)
    try:
        res = []
        for a in itertools.islice(artifact.iter_artifactkit_payloads(fh, start_offset=start, maxrange=maxrange), 5000):
            res.append((a.offset, a.size, bytes(a.xorkey), bytes(a.hints), bytes(a.payload)))
        return res
    except Exception as e:  # noqa
        return f"{type(e).__name__}: {e}"


def ak_judge(acc, data, start, cur, maxrange, case_extra=None):
    exp = ref_artifact(data, start, cur, maxrange)
    got = run_artifact(data, start, cur, maxrange)
    acc.transitions += 1
    acc.case((data, start, cur, maxrange), nontrivial=bool(exp) or bool(got), outcome=repr(got)[:200] if got else 0)
    if got != exp:
        if not isinstance(got, list):
            sig = "C15/artifactkit/exception"
        elif [g[0] for g in got] != [e[0] for e in exp]:
            sig = "C15/artifactkit/offsets"
        else:
            sig = "C15/artifactkit/payload-fields"
        case = {"kind": "ak", "data": data.hex(), "start": start, "cur": cur, "maxrange": maxrange}
        acc.fail(sig, case, _akj(exp), _akj(got))


def _akj(res):
    if not isinstance(res, list):
        return res
    return [[o, s, k.hex(), h.hex(), p.hex()] for (o, s, k, h, p) in res[:20]]


def chunk_ak_all(chunk, acc):
    b = BOUNDS[acc.tier]
    first = bytes([chunk["first"]])
    for rest in words(AK_ALPHA, b["artifact_len"] - 1):
        data = first + rest
        acc.states += 1
        ak_judge(acc, data, 0, 0, None)
        if len(data) <= 5:
            for start, cur, mr in ((None, 1, None), (1, 0, None), (0, 0, 0), (0, 0, 1), (0, 0, 4), (0, 3, None), (0, len(data), None), (2, 4, None)):
                ak_judge(acc, data, start, min(cur, len(data)), mr)
    acc.sample({"file": (first + bytes([0, 0, 0, 0x11])).hex(), "alphabet": [f"{x:02x}" for x in AK_ALPHA]})


def chunk_ak_short(chunk, acc):
    acc.states += 1
    ak_judge(acc, b"", 0, 0, None)
    ak_judge(acc, b"", None, 0, None)
    acc.sample({"file": ""})


def chunk_ak_constructed(chunk, acc):
    keys = (b"\x00\x00\x00\x00", b"\xff\xff\xff\xff", b"\x01\x02\x03\x04")
    body = lcg(48, acc.seed + 11)
    for p1 in range(0, 41):
        for size in (0, 1, 3, 4, 5, 1000):
            for key in keys:
                pre = lcg(p1, acc.seed + 3)
                # keep filler from accidentally satisfying the check at another offset: replace by ff
                pre = b"\xee" * p1
                hdr = struct.pack("<II", p1 + 16, size) + key + b"HINTHINT"
                data = pre + hdr + body
                acc.states += 1
                ak_judge(acc, data, 0, 0, None)
                for start, cur, mr in ((None, 0, None), (None, p1, None), (p1, 0, None), (p1 + 1, 0, None), (0, 0, p1), (0, 0, max(p1 - 1, 0)), (0, p1 + 1, None), (0, len(data), None), (p1, len(data), None)):
                    ak_judge(acc, data, start, cur, mr)
                # every truncation of the header itself
                if size in (0, 5) and key == keys[2] and p1 in (0, 1, 17):
                    for cut in range(p1, p1 + 21):
                        ak_judge(acc, data[:cut], 0, 0, None)
                # a second header at every later position (overlapping the first header / its payload or after it)
                if size in (4, 1000) and key == keys[2] and p1 in (0, 3):
                    for p2 in range(p1 + 1, p1 + 40):
                        d2 = bytearray(data.ljust(p2 + 24, b"\xee"))
                        d2[p2 : p2 + 4] = struct.pack("<I", p2 + 16)
                        ak_judge(acc, bytes(d2), 0, 0, None)
    acc.sample({"header_at": 5, "size": 4, "key": "01020304", "layout": "filler | u32(off+16) u32(size) key hints[8] payload"})


def chunk_ak_offsets(chunk, acc):
    """One header at every offset of a window (all low-byte values, with the carries of off+16 into the second and
    third byte), found from the start of the file and from a start offset just in front of it."""
    body = lcg(24, acc.seed + 12)
    key = b"\x01\x02\x03\x04"
    for p1 in range(chunk["lo"], chunk["hi"]):
        hdr = struct.pack("<II", p1 + 16, 5) + key + b"HINTHINT"
        data = b"\xee" * p1 + hdr + body
        acc.states += 1
        if p1 <= 20000:
            ak_judge(acc, data, 0, 0, None)
        if p1 <= 1200:
            # zero padding in front of the header, starting at every alignment
            for lead in range(0, min(4, p1) + 1):
                ak_judge(acc, b"\x01" * lead + b"\x00" * (p1 - lead) + hdr + body, 0, 0, None)
        if p1 < 200:
            # (should the scanner ever read through a buffer: every small buffer boundary as well)
            for S in (5, 7, 16):
                io.DEFAULT_BUFFER_SIZE = S
                try:
                    ak_judge(acc, data + bytes([S]), 0, 0, None)
                    ak_judge(acc, data + bytes([S]), 2, 0, None)
                finally:
                    io.DEFAULT_BUFFER_SIZE = 8192
        if 2000 < p1 <= 20000:
            ak_judge(acc, data, 1000, 0, None)
            ak_judge(acc, data, None, 1, None)
        ak_judge(acc, data, max(p1 - 3, 0), 0, None)
        ak_judge(acc, data, max(p1 - 3, 0), 0, p1)
    acc.sample({"header_at": f"{chunk['lo']}..{chunk['hi'] - 1}", "size": 5, "key": "01020304"})


def run_chunk(chunk, acc):
    kind = chunk["kind"]
    if kind == "needle":
        chunk_needle(chunk, acc)
    elif kind == "straddle":
        chunk_straddle(chunk, acc)
    elif kind == "zeroneedle":
        chunk_zeroneedle(chunk, acc)
    elif kind == "longneedle":
        chunk_longneedle(chunk, acc)
    elif kind == "ak_all":
        chunk_ak_all(chunk, acc)
    elif kind == "ak_short":
        chunk_ak_short(chunk, acc)
    elif kind == "ak_constructed":
        chunk_ak_constructed(chunk, acc)
    elif kind == "ak_offsets":
        chunk_ak_offsets(chunk, acc)
    else:
        raise ValueError(kind)


def replay(case):
    if case["kind"] == "needle":
        hay, needle = unhx(case["hay"]), unhx(case["needle"])
        got = run_needle(hay, needle, case["buf"], case["start"], case["cur"], case["limit"])
        io.DEFAULT_BUFFER_SIZE = 8192
        start_eff = case["start"] if case["start"] is not None else case["cur"]
        bad = judge_needle(hay, needle, start_eff, case["limit"], got)
        return {"ok": bad is None, "expected": bad[1] if bad else got, "observed": got}
    if case["kind"] == "needle-moved":
        hay, needle = unhx(case["hay"]), unhx(case["needle"])
        a = run_needle(hay, needle, case["buffer"], case["start"], case["cur"], case["limit"])
        b = run_needle(hay, needle, case["buffer"], case["start"], case["cur"], case["limit"], move_to=case["moved_to"])
        io.DEFAULT_BUFFER_SIZE = 8192
        return {"ok": a == b, "expected": a, "observed": b}
    if case["kind"] == "straddle":
        needle = unhx(case["needle"])
        filler = unhx(case["filler"])
        base = bytearray(lcg(case["total"], case["seed"] + 5) if filler is None else filler * case["total"])
        base[case["off"] : case["off"] + len(needle)] = needle
        got = run_needle(bytes(base), needle, 8192, 0, 0, case["limit"])
        bad = judge_needle(bytes(base), needle, 0, case["limit"], got)
        return {"ok": bad is None, "expected": bad[1] if bad else None, "observed": got if not isinstance(got, list) else got[:50]}
    if case["kind"] == "ak":
        data = unhx(case["data"])
        exp = ref_artifact(data, case["start"], case["cur"], case["maxrange"])
        got = run_artifact(data, case["start"], case["cur"], case["maxrange"])
        return {"ok": got == exp, "expected": _akj(exp), "observed": _akj(got)}
    raise ValueError(case["kind"])


def standalone(case):
    if case and case.get("kind") == "needle":
        return (
            "import io\nfrom dissect.cobaltstrike import utils\n"
            f"io.DEFAULT_BUFFER_SIZE = {case['buf']}\n"
            f"fh = io.BytesIO(bytes.fromhex({case['hay']!r})); fh.seek({case['cur']})\n"
            f"print(list(utils.iter_find_needle(fh, bytes.fromhex({case['needle']!r}), start_offset={case['start']!r}, max_offset={case['limit']})))\n"
        )
    if case and case.get("kind") == "ak":
        return (
            "import io\nfrom dissect.cobaltstrike import artifact\n"
            f"fh = io.BytesIO(bytes.fromhex({case['data']!r})); fh.seek({case['cur']})\n"
            f"print(list(artifact.iter_artifactkit_payloads(fh, start_offset={case['start']!r}, maxrange={case['maxrange']!r})))\n"
        )
    return None
