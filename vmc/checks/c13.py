"""C13 - A profile generated from a beacon configuration is valid and faithful (form G over configurations)."""

from __future__ import annotations

import copy
import itertools
import struct

from vmc.kernel import deviation_sets
from vmc.ref import config as RC
from vmc.ref import profile as RP
from vmc.ref import programs as P
from vmc.ref import tlv
from vmc.runner import lcg

ID = "C13"
LEVEL = "model_checking"
RULE = (
    "configurations are built by the reference TLV/program encoders from four base configurations (HTTP, HTTPS, DNS, "
    "SMB/TCP) plus every set of <= k deviations (k=1 quick, k=2 thorough) from a menu of ~45 settings x value "
    "families (programs with hostile byte arguments, execute lists, BeaconGate vectors, text values with quotes, "
    "backslashes, #;{}); each is run through from_beacon_config -> as_text -> from_text -> as_dict and compared with "
    "what the reference derives from the configuration. non-trivial = every configuration (each is distinct)"
    '. Added to the menu: hostile and repeated static names, header/parameter splitting, Host + host header, execute names and start addresses with quotes/backslashes, gate subsets, both inject transforms, empty domain entries, a post program byte-identical to the get program. '
)
ASSUMPTIONS = [
    "text values are accepted if equal as raw literal text or after escape decoding",
    "server-output steps carry only lengths and are accepted in configuration order or its reverse",
    "BeaconGate names are compared as a set after group expansion; NtQueueApcThread-s/_s spell the same step",
    "the `# dns_resolver` line is a comment by construction and ignored in the fixed-point comparison",
    "the Reconstructor is memoised by the harness; a subset runs un-memoised",
]
BOUNDS = {"quick": {"k": 1}, "thorough": {"k": 2}}

HOSTILE = (b"", b"A", b"\\", b'"', b"'", b"\x00", b"\x80\xff", b"\n", b";#{}", b"a\\", b'\\"', b"k=v", b"Host: x", b"\\'", b"path\\'s", b"'\"", b"\\\\'", b"\t\r")


def progs_get():
    out = [None]
    for arg in HOSTILE:
        out.append([("BUILD", 0), ("PREPEND", arg), ("BASE64", None), ("HEADER", b"Cookie")])
        out.append([("BUILD", 0), ("MASK", None), ("APPEND", arg), ("NETBIOSU", None), ("PARAMETER", b"q")])
    out.append([("_HEADER", b"Accept: */*"), ("_HOSTHEADER", b"Host: cdn.example"), ("_PARAMETER", b"k=v"), ("BUILD", 0), ("BASE64URL", None), ("URI_APPEND", None)])
    out.append([("_HEADER", b'X-Q: a"b'), ("_HEADER", b"X-B: a\\b"), ("BUILD", 0), ("NETBIOS", None), ("PRINT", None)])
    out.append([("BUILD", 0), ("HEADER", b'Co"okie')])
    # repeated static names: each one is a statement of its own
    out.append([("_HEADER", b"Accept: a"), ("_HEADER", b"Accept: b"), ("_PARAMETER", b"id=first"), ("_PARAMETER", b"id=second"), ("BUILD", 0), ("BASE64", None), ("HEADER", b"Cookie")])
    out.append([("_HEADER", b"X: 1"), ("_HOSTHEADER", b"Host: h"), ("_HEADER", b"X: 1"), ("BUILD", 0), ("PRINT", None)])
    # a static Host header set by the profile AND the listener's host header: both are stated, in program order
    out.append([("_HEADER", b"Host: a.example"), ("_HEADER", b"X: 1"), ("_HOSTHEADER", b"Host: front.example"), ("_HEADER", b"host: b.example"), ("BUILD", 0), ("BASE64", None), ("HEADER", b"Cookie")])
    # static parameters are name=value text, not a query string: '+', '%XX' and '&' are ordinary characters
    out.append([("_PARAMETER", b"q=cobalt+strike"), ("_PARAMETER", b"x=1&y=2"), ("_PARAMETER", b"p=%41%zz"), ("_PARAMETER", b"e="), ("BUILD", 0), ("BASE64URL", None), ("HEADER", b"Cookie")])
    # the name ends at the first ": "; everything after it is the value - leading blanks, further colons and all
    out.append([("_HEADER", b"X-Lead:  two"), ("_HEADER", b"X-Tab: \tv"), ("_HEADER", b"Na:me: v"), ("_HEADER", b"X-C: a: b"), ("_HOSTHEADER", b"Host: h:8080"), ("BUILD", 0), ("BASE64", None), ("HEADER", b"Cookie")])
    return out


def progs_post():
    out = [None]
    for arg in HOSTILE:
        out.append([("BUILD", 0), ("APPEND", arg), ("PARAMETER", b"id"), ("BUILD", 1), ("PREPEND", arg), ("MASK", None), ("PRINT", None)])
    out.append([("_HEADER", b"A: 1"), ("_HEADER", b"A: 2"), ("_PARAMETER", b"p=1"), ("_PARAMETER", b"p=2"), ("BUILD", 0), ("PARAMETER", b"id"), ("BUILD", 1), ("PRINT", None)])
    out.append([("_HEADER", b"HOST: a.example"), ("_HOSTHEADER", b"Host: front.example"), ("BUILD", 0), ("PARAMETER", b"id"), ("BUILD", 1), ("PRINT", None)])
    out.append([("_PARAMETER", b"q=a+b"), ("_PARAMETER", b"x=1&y=2%20"), ("BUILD", 0), ("PARAMETER", b"id"), ("BUILD", 1), ("PRINT", None)])
    out.append([("_HEADER", b"X-Lead:  two"), ("_HEADER", b"Na:me: v"), ("_PARAMETER", b"p= v"), ("BUILD", 0), ("PARAMETER", b"id"), ("BUILD", 1), ("PRINT", None)])
    out.append([("_HEADER", b"Content-Type: text/plain"), ("_PARAMETER", b"a=b=c"), ("BUILD", 0), ("NETBIOS", None), ("HEADER", b"X-Id"), ("BUILD", 1), ("BASE64URL", None), ("URI_APPEND", None)])
    return out


def progs_recover():
    return [None, [("PRINT", None)], [("PRINT", None), ("APPEND", 10), ("PREPEND", 84), ("BASE64URL", None), ("MASK", None)], [("PRINT", None), ("NETBIOS", None)], [("PRINT", None), ("PREPEND", 0), ("APPEND", 0), ("BASE64", None)], [("PRINT", None), ("NETBIOSU", None), ("MASK", None), ("PREPEND", 1)]]


TEXTS = (b"plain", b'a"b', b"a\\b", b"a\\", b'a\\"b', b"# ; { }", b"it's", b"%windir%\\sysnative\\rundll32.exe", b"")


def cstr(b, pad=None):
    v = b + b"\x00"
    return v.ljust(pad, b"\x00") if pad else v


def bg(names):
    return P.beacon_gate(set(names))


def menu():
    """[(label, index, [ (value label, type, raw value or None for 'absent') ... ])]"""
    I, Sh, Pt = tlv.T_INT, tlv.T_SHORT, tlv.T_PTR
    m = []
    m.append(("sleeptime", 3, [(v, I, struct.pack(">I", v)) for v in (0, 1, 0xFFFFFFFF)] + [("absent", None, None)]))
    m.append(("jitter", 5, [(v, Sh, struct.pack(">H", v)) for v in (0, 37, 99)]))
    m.append(("useragent", 9, [(t.decode("latin-1"), Pt, cstr(t, 128)) for t in TEXTS[1:]]))
    m.append(("domains", 8, [(t, Pt, cstr(t.encode(), 256)) for t in ("h,/a", "h1,/a,h2,/b", "h1,/a,h2,/a", 'h,/a"b', "h,/a\\", "h,/a b,h,/c", "cdn.example.com,,www.example.com,/updates", "h1,/a,h2,", "h1,/a,,/b")]))
    m.append(("submituri", 10, [(t.decode("latin-1"), Pt, cstr(t, 64)) for t in (b"/s", b'/s"x', b"/s\\", b"/s;#")]))
    m.append(("verb_get", 26, [(t, Pt, cstr(t.encode(), 16)) for t in ("POST", "PUT", 'G"T')]))
    m.append(("verb_post", 27, [(t, Pt, cstr(t.encode(), 16)) for t in ("GET", "X\\")]))
    m.append(("get", 12, [(f"prog{i}", Pt, P.transform_program(p).ljust(512, b"\x00")) for i, p in enumerate(progs_get()) if p is not None]))
    m.append(("post", 13, [(f"prog{i}", Pt, P.transform_program(p).ljust(512, b"\x00")) for i, p in enumerate(progs_post()) if p is not None]
              + [("same-bytes-as-get", Pt, P.transform_program(RC.DEFAULT_GET).ljust(512, b"\x00"))]))
    m.append(("recover", 11, [(f"prog{i}", Pt, P.recover_program(p).ljust(256, b"\x00")) for i, p in enumerate(progs_recover()) if p is not None] + [("absent", None, None)]))
    m.append(("spawnto_x86", 29, [(t.decode("latin-1"), Pt, cstr(t, 64)) for t in TEXTS]))
    m.append(("spawnto_x64", 30, [(t.decode("latin-1"), Pt, cstr(t, 64)) for t in TEXTS[:3] + TEXTS[7:8]]))
    m.append(("perms_i", 43, [(v, Sh, struct.pack(">H", v)) for v in (64, 4, 0)]))
    m.append(("perms", 44, [(v, Sh, struct.pack(">H", v)) for v in (64, 32, 0)]))
    m.append(("minalloc", 45, [(v, I, struct.pack(">I", v)) for v in (0, 4096, 0xFFFFFFFF)]))
    tf = [(b"", b""), (b"\x90\x90", b""), (b"", b"\xcc"), (b"\x90\\", b'"\x00\xff'), (b"'", b"\n")]
    m.append(("transform_x86", 46, [(f"a{a.hex()}p{p.hex()}", Pt, P.procinj_transform(a, p).ljust(256, b"\x00")) for a, p in tf]))
    m.append(("transform_x64", 47, [(f"a{a.hex()}p{p.hex()}", Pt, P.procinj_transform(a, p).ljust(256, b"\x00")) for a, p in tf]))
    ex = [["CreateThread"], ["SetThreadContext", "CreateRemoteThread", "RtlCreateUserThread", "NtQueueApcThread", "NtQueueApcThread-s"], [("CreateThread_", 0x10, b"ntdll.dll", b"RtlUserThreadStart"), ("CreateRemoteThread_", 0, b"kernel32.dll", b"LoadLibraryA")],
          ["CreateThread", "SetThreadContext", "CreateRemoteThread", "RtlCreateUserThread", "NtQueueApcThread", ("CreateThread_", 1, b"a", b"b"), ("CreateRemoteThread_", 0xFFFF, b"m", b"f"), "NtQueueApcThread-s"], [],
          [("CreateThread_", 0, b'"mod', b'fn"'), ("CreateRemoteThread_", 2, b'm"', b'"f')], [("CreateThread_", 0, b"mo d", b"f\\n")],
          # a method named more than once: the list is a list, every entry is stated, in order
          ["CreateThread", "SetThreadContext", ("CreateThread_", 0, b"ntdll", b"RtlUserThreadStart"), "NtQueueApcThread-s", "SetThreadContext", "RtlCreateUserThread", "CreateThread"],
          ["RtlCreateUserThread", "RtlCreateUserThread"]]
    m.append(("execute", 51, [(f"list{i}", Pt, P.execute_list(e).ljust(128, b"\x00")) for i, e in enumerate(ex)]))
    m.append(("allocator", 52, [(v, Sh, struct.pack(">H", v)) for v in (0, 1)]))
    for lab, idx in (("dns_beacon", 60), ("dns_get_a", 61), ("dns_get_aaaa", 62), ("dns_get_txt", 63), ("dns_put_md", 64), ("dns_put_out", 65), ("dnsresolver", 66)):
        m.append((lab, idx, [(t.decode("latin-1"), Pt, cstr(t, 33)) for t in (b"cdn.", b'a"b', b"x\\", b"")]))
    m.append(("dns_idle", 19, [(v, I, struct.pack(">I", v)) for v in (0, 0x08080808, 0xFFFFFFFF)]))
    m.append(("dns_sleep", 20, [(v, I, struct.pack(">I", v)) for v in (0, 1000)]))
    m.append(("maxdns", 6, [(v, Sh, struct.pack(">H", v)) for v in (0, 255)]))
    m.append(("cleanup", 38, [(v, Sh, struct.pack(">H", v)) for v in (0, 1)]))
    m.append(("gargle_nook", 41, [(v, I, struct.pack(">I", v)) for v in (0, 0x1000)]))
    m.append(("data_store_size", 76, [(v, Sh, struct.pack(">H", v)) for v in (0, 16, 0xFFFF)]))
    m.append(("bof_allocator", 16, [(v, Sh, struct.pack(">H", v)) for v in (0, 1, 2)]))
    m.append(("bof_reuse", 48, [(v, Sh, struct.pack(">H", v)) for v in (0, 1)]))
    m.append(("data_required", 77, [(v, Sh, struct.pack(">H", v)) for v in (0, 1)]))
    A = P.BEACON_GATE_APIS
    vectors = [[], A, list(P.BG_COMMS), list(P.BG_CORE), list(P.BG_CLEANUP), list(P.BG_COMMS | P.BG_CLEANUP), list(P.BG_COMMS | P.BG_CORE), list(P.BG_CORE | P.BG_CLEANUP), [a for a in A if a != "InternetOpenA"]] + [[a] for a in A] + [["VirtualProtectEx", "ExitThread"], list(P.BG_CORE - {"VirtualProtectEx"}), list(P.BG_COMMS) + ["VirtualAlloc"]]
    m.append(("beacon_gate", 78, [("+".join(sorted(v))[:40] or "none", Pt, bg(v)) for v in vectors]))
    m.append(("tcp_frame", 58, [(f.hex(), Pt, P.pivot_frame(f, 128)) for f in (b"", b"\x80", b'a"\\', b"\x00\x01")]))
    m.append(("smb_frame", 57, [(f.hex(), Pt, P.pivot_frame(f, 128)) for f in (b"", b"\x80\x00\xff")]))
    return m


BASES = {
    "http": dict(protocol=0, port=80),
    # (carries a non-empty process-inject transform for x86, so that a deviation of the x64 one makes both non-empty)
    "https": dict(protocol=8, port=443, useragent=b"Mozilla/5.0 (Windows NT 10.0; Win64; x64)", extra=[(46, tlv.T_PTR, P.procinj_transform(b"\x90\x90", b"\xcc\xcc\xcc").ljust(256, b"\x00"))]),
    "dns": dict(protocol=1, port=53, domains=b"ns1.example.com,/x"),
    "smb": dict(protocol=2, port=4444, domains=b""),
}


def build_settings(base, devs):
    """devs: tuple of (menu label, index, (value label, type, raw)) -> ordered settings list"""
    s = RC.http_settings(**BASES[base])
    if base in ("dns", "smb"):
        # no HTTP programs in these base configurations
        s = [x for x in s if x[0] not in (11, 12, 13)]
    for lab, idx, (vl, typ, rawv) in devs:
        pos = next((i for i, x in enumerate(s) if x[0] == idx), None)
        if typ is None:
            if pos is not None:
                s.pop(pos)
        elif pos is not None:
            s[pos] = (idx, typ, rawv)
        else:
            s.append((idx, typ, rawv))
    return s


def plan(tier, seed):
    k = BOUNDS[tier]["k"]
    ch = []
    M = menu()
    for base in BASES:
        ch.append({"key": f"{base}/k0", "kind": "dev", "base": base, "first": None, "cost": 10})
        for mi, (lab, idx, vals) in enumerate(M):
            ch.append({"key": f"{base}/k1/{lab}", "kind": "dev", "base": base, "first": mi, "k": 1, "cost": len(vals) * 10})
            if k >= 2 and base in ("http", "dns"):
                ch.append({"key": f"{base}/k2/{lab}", "kind": "dev", "base": base, "first": mi, "k": 2, "cost": len(vals) * 900})
            elif k == 1 and base == "http" and lab in ("get", "post", "recover", "useragent", "domains", "execute", "beacon_gate"):
                # quick tier: pairs whose first deviation is one of the seven most structured settings
                ch.append({"key": f"{base}/k2lite/{lab}", "kind": "dev", "base": base, "first": mi, "k": 2, "lite": True, "cost": len(vals) * 100})
    ch.append({"key": "order", "kind": "order", "cost": 300})
    ch.append({"key": "uncached", "kind": "uncached", "cost": 1500})
    return ch


# ------------------------------------------------------------------------------------------------------------------
# what the profile must state (derived from the configuration by the reference, not by the generator)
# ------------------------------------------------------------------------------------------------------------------


def txt(raw: bytes) -> str:
    return raw.split(b"\x00", 1)[0].decode("latin-1")


class Text:
    """A text value: accepted as raw literal text or after escape decoding."""

    def __init__(self, s):
        self.s = s

    def ok(self, got):
        if not isinstance(got, str):
            return False
        if got == self.s:
            return True
        try:
            return RP.decode_literal('"' + got + '"').decode("latin-1") == self.s
        except Exception:
            return False

    def __repr__(self):
        return f"Text({self.s!r})"


def step_list(steps):
    out = []
    for op, arg in steps:
        name = op.lower().replace("uri_append", "uri-append")
        out.append(name if arg is None else (name, arg))
    return out


def requirements(settings):
    """-> (required: {key: matcher}, allowed: set of keys that may additionally appear)"""
    by = {}
    for i, t, v in settings:
        by[i] = (t, v)
    req = {}
    val = lambda i: tlv.value_of(*by[i])  # noqa
    if 3 in by:
        req["sleeptime"] = [str(val(3))]
    if 5 in by:
        req["jitter"] = [str(val(5))]
    if 9 in by:
        req["useragent"] = [Text(txt(by[9][1]))]
    if 8 in by:
        toks = txt(by[8][1]).split(",")
        uris = [u for u in dict.fromkeys(toks[1::2]) if u]
        if uris:
            req["http-get.uri"] = ("uris", uris)
    if 26 in by:
        req["http-get.verb"] = [Text(txt(by[26][1]))]
    if 27 in by:
        req["http-post.verb"] = [Text(txt(by[27][1]))]
    if 10 in by:
        req["http-post.uri"] = [Text(txt(by[10][1]))]
    for idx, side, b0 in ((12, "http-get.client", "metadata"), (13, "http-post.client", "id")):
        if idx not in by:
            continue
        prog = parse_prog(by[idx][1], b0)
        headers, params = [], []
        blocks = {}
        cur = None
        for op, arg in prog:
            if op in ("_HEADER", "_HOSTHEADER"):
                k, _, v = arg.decode("latin-1").partition(": ")
                headers.append((Text(k), Text(v)))
            elif op == "_PARAMETER":
                k, _, v = arg.decode("latin-1").partition("=")
                params.append((Text(k), Text(v)))
            elif op == "BUILD":
                cur = arg
                blocks.setdefault(cur, [])
            else:
                blocks[cur].append((op, arg))
        if headers:
            req[f"{side}.header"] = ("pairs", headers)
        if params:
            req[f"{side}.parameter"] = ("pairs", params)
        for kind, steps in blocks.items():
            req[f"{side}.{kind}"] = ("steps", step_list(steps))
    if 11 in by:
        rsteps = parse_recover(by[11][1])
        if rsteps:
            req["http-get.server.output"] = ("server", rsteps)
    if 29 in by:
        req["spawnto_x86"] = [Text(txt(by[29][1]))]
    if 30 in by:
        req["spawnto_x64"] = [Text(txt(by[30][1]))]
    if 43 in by and val(43) in (64, 4):
        req["process-inject.startrwx"] = ["true" if val(43) == 64 else "false"]
    if 44 in by and val(44) in (64, 32):
        req["process-inject.userwx"] = ["true" if val(44) == 64 else "false"]
    if 45 in by and val(45):
        req["process-inject.min_alloc"] = [str(val(45))]
    for idx, name in ((46, "transform-x86"), (47, "transform-x64")):
        if idx in by:
            a, p = parse_procinj(by[idx][1])
            if a or p:
                req[f"process-inject.{name}"] = ("stage_transform", (a, p))
    if 51 in by:
        items = parse_exec(by[51][1])
        if items:
            req["process-inject.execute"] = ("execute", items)
    if 52 in by:
        req["process-inject.allocator"] = ["NtMapViewOfSection" if val(52) else "VirtualAllocEx"]
    if 48 in by and val(48):
        req["process-inject.bof_reuse_memory"] = ["true"]
    if 16 in by and val(16) in (0, 1, 2):
        req["process-inject.bof_allocator"] = [("VirtualAlloc", "MapViewOfFile", "HeapAlloc")[val(16)]]
    for idx, key in ((60, "beacon"), (61, "get_A"), (62, "get_AAAA"), (63, "get_TXT"), (64, "put_metadata"), (65, "put_output")):
        if idx in by:
            req[f"dns-beacon.{key}"] = [Text(txt(by[idx][1]))]
    if 19 in by:
        v = val(19)
        req["dns-beacon.dns_idle"] = [".".join(str((v >> s) & 255) for s in (24, 16, 8, 0))]
    if 20 in by:
        req["dns-beacon.dns_sleep"] = [str(val(20))]
    if 6 in by:
        req["dns-beacon.maxdns"] = [str(val(6))]
    if 38 in by:
        req["stage.cleanup"] = ("bool-or-int", val(38))
    if 41 in by and val(41):
        req["stage.sleep_mask"] = ("bool-or-int", val(41))
    if 76 in by:
        req["stage.data_store_size"] = [str(val(76))]
    if 77 in by and val(77):
        req["http-beacon.data_required"] = ["true"]
    if 78 in by:
        enabled = {n for n, b in zip(P.BEACON_GATE_APIS, by[78][1]) if b}
        if enabled:
            req["stage.beacon_gate"] = ("gate", frozenset(enabled))
    for idx, key in ((58, "tcp_frame_header"), (57, "smb_frame_header")):
        if idx in by:
            frame = parse_frame(by[idx][1])
            if frame:
                req[key] = ("bytes", frame)
    return req


def parse_prog(raw, b0):
    out, p = [], 0
    names = {v: k for k, v in P.OPS.items()}
    while p + 4 <= len(raw):
        op = struct.unpack_from(">I", raw, p)[0]
        p += 4
        if op == 0:
            break
        name = names[op]
        if name == "BUILD":
            out.append((name, {0: b0, 1: "output"}[struct.unpack_from(">I", raw, p)[0]]))
            p += 4
        elif name in P.ARG_OPS:
            n = struct.unpack_from(">I", raw, p)[0]
            out.append((name, raw[p + 4 : p + 4 + n]))
            p += 4 + n
        else:
            out.append((name, None))
    return out


def parse_recover(raw):
    out, p = [], 0
    names = {v: k for k, v in P.OPS.items()}
    while p + 4 <= len(raw):
        op = struct.unpack_from(">I", raw, p)[0]
        p += 4
        if op == 0:
            break
        name = names[op]
        if name in ("APPEND", "PREPEND"):
            out.append((name.lower(), struct.unpack_from(">I", raw, p)[0]))
            p += 4
        else:
            out.append((name.lower(), None))
    return out


def parse_procinj(raw):
    n = struct.unpack_from(">I", raw, 0)[0]
    a = raw[4 : 4 + n]
    m = struct.unpack_from(">I", raw, 4 + n)[0]
    return a, raw[8 + n : 8 + n + m]


def parse_exec(raw):
    names = {v: k for k, v in P.EXECUTORS.items()}
    out, p = [], 0
    while p < len(raw) and raw[p]:
        name = names[raw[p]]
        p += 1
        if name.endswith("_"):
            off = struct.unpack_from(">H", raw, p)[0]
            n = struct.unpack_from(">I", raw, p + 2)[0]
            mod = raw[p + 6 : p + 6 + n].rstrip(b"\x00")
            p += 6 + n
            n = struct.unpack_from(">I", raw, p)[0]
            fn = raw[p + 4 : p + 4 + n].rstrip(b"\x00")
            p += 4 + n
            s = f"{mod.decode()}!{fn.decode()}" + (f"+0x{off:x}" if off else "")
            out.append((name.rstrip("_"), s.encode()))
        else:
            out.append(name)
    return out


def parse_frame(raw):
    n = struct.unpack_from(">H", raw, 0)[0]
    return raw[2 : 2 + n - 4]


ALLOWED_EXTRA = {"dns-beacon.# dns_resolver", "dns-beacon.dns_resolver"}


def match(key, want, got):
    """-> None if the dictionary entry `got` states `want`, else a description"""
    if isinstance(want, list):
        if len(got) != len(want):
            return f"{len(got)} entries"
        for w, g in zip(want, got):
            if isinstance(w, Text):
                if not w.ok(g):
                    return f"text {g!r} is not {w.s!r}"
            elif w != g:
                return f"{g!r} != {w!r}"
        return None
    kind, w = want
    if kind == "uris":
        toks = [t.strip() for g in got for t in (g.split(",") if isinstance(g, str) else [])]
        alt = []
        for g in got:
            try:
                alt += [t.strip() for t in RP.decode_literal('"' + g + '"').decode("latin-1").split(",")]
            except Exception:
                pass
        if set(toks) != set(w) and set(alt) != set(w):
            return f"uris {toks!r} are not {w!r}"
        return None
    if kind == "pairs":
        if len(got) != len(w):
            return f"{len(got)} pairs, expected {len(w)}"
        for (wk, wv), g in zip(w, got):
            if not (isinstance(g, tuple) and len(g) == 2 and wk.ok(g[0]) and wv.ok(g[1])):
                return f"pair {g!r} is not ({wk.s!r}, {wv.s!r})"
        return None
    if kind == "steps":
        norm = [x if isinstance(x, str) else (x[0], bytes(x[1])) for x in got]
        if norm != w:
            return f"steps {norm!r} are not byte-exactly {w!r}"
        return None
    if kind == "server":
        body = [x for x in w if x[0] != "print"]
        gl = [(x if isinstance(x, str) else (x[0], len(x[1]))) for x in got]
        wl = [(n if a is None else (n, a)) for n, a in body]
        if not gl or gl[-1] != "print":
            return f"server output {gl!r} does not end in print"
        if gl[:-1] != wl and gl[:-1] != wl[::-1]:
            return f"server output steps {gl[:-1]!r} are neither {wl!r} nor its reverse"
        return None
    if kind == "stage_transform":
        a, p = w
        flat = {}
        for g in got:
            if isinstance(g, tuple) and len(g) == 2:
                flat[g[0]] = g[1]
        ok = (not a or flat.get("append") == a) and (not p or flat.get("prepend") == p) and set(flat) <= {"append", "prepend"}
        return None if ok else f"transform {got!r} is not append={a!r} prepend={p!r}"
    if kind == "execute":
        norm = []
        for g in got:
            if isinstance(g, tuple):
                norm.append((g[0], bytes(g[1])))
            else:
                norm.append(P.norm_exec_name(g))
        return None if norm == w else f"execute {norm!r} is not {w!r}"
    if kind == "gate":
        if not all(isinstance(g, str) for g in got):
            return f"gate {got!r}"
        return None if P.beacon_gate_expand(got) == w else f"gate {sorted(P.beacon_gate_expand(got))} is not {sorted(w)}"
    if kind == "bool-or-int":
        ok = len(got) == 1 and got[0] in (str(w), "true" if w else "false")
        return None if ok else f"{got!r} does not state {w}"
    if kind == "bytes":
        ok = len(got) == 1 and isinstance(got[0], str)
        if ok:
            try:
                ok = RP.decode_literal('"' + got[0] + '"') == w
            except Exception:
                ok = False
        return None if ok else f"{got!r} does not state bytes {w!r}"
    return f"unknown matcher {kind}"


def check_config(cp, settings):
    """-> None or (signature, expected, observed)"""
    from dissect.cobaltstrike import beacon

    block = tlv.encode(settings)
    try:
        cfg = beacon.BeaconConfig(block)
        prof = cp.C2Profile.from_beacon_config(cfg)
    except Exception as e:  # noqa
        return "C13/generate/exception", "profile", f"{type(e).__name__}: {str(e)[:200]}"
    try:
        text = prof.as_text()
    except Exception as e:  # noqa
        return "C13/as_text/exception", "text", f"{type(e).__name__}: {str(e)[:200]}"
    try:
        back = cp.C2Profile.from_text(text)
    except Exception as e:  # noqa
        return "C13/reparse/invalid-text", "syntactically valid profile", f"{type(e).__name__}: {str(e)[:160]} :: {_excerpt(text, e)}"
    try:
        text2 = back.as_text()
        if RP.tokenize(_nocomment(text2)) != RP.tokenize(_nocomment(text)):
            return "C13/reparse/not-a-fixed-point", RP.tokenize(_nocomment(text))[:40], RP.tokenize(_nocomment(text2))[:40]
        d = copy.deepcopy(back.as_dict())
    except Exception as e:  # noqa
        return "C13/reparse/exception", "dictionary", f"{type(e).__name__}: {str(e)[:200]}"
    # the data-transform positions that as_dict does not list as one list are normalised to one list here
    d = normalise(d)
    req = requirements(settings)
    for key, want in req.items():
        if key not in d:
            return "C13/faithful/missing/" + key, repr(want)[:200], sorted(d)[:30]
        why = match(key, want, d[key])
        if why:
            return "C13/faithful/wrong/" + key, repr(want)[:300], why[:400]
    extra = [k for k in d if k not in req and k not in ALLOWED_EXTRA]
    if extra:
        return "C13/faithful/states-something-not-in-the-configuration/" + extra[0], sorted(req), {k: d[k] for k in extra[:3]}
    # blocks with no content are omitted
    # (the output-only `# dns_resolver "...";` pseudo statement counts as content of its block)
    toks = RP.tokenize(text.replace("# dns_resolver", "dns_resolver_comment"))
    for i in range(len(toks) - 1):
        if toks[i] == "{" and toks[i + 1] == "}":
            return "C13/empty-block-emitted", "no empty blocks", toks[max(0, i - 3) : i + 2]
    return None


def normalise(d):
    """Positions that the dictionary view reports per keyword (e.g. `process-inject.transform-x64.prepend`) are
    folded back into one list per position so that both representations compare alike."""
    out = {}
    for k, v in d.items():
        for pos in ("process-inject.transform-x86", "process-inject.transform-x64", "http-get.client.id", "http-get.client.output", "http-post.client.metadata"):
            if k.startswith(pos + "."):
                name = k[len(pos) + 1 :]
                out.setdefault(pos, []).extend((name, RP.decode_literal('"' + x + '"')) if isinstance(x, str) else x for x in v)
                break
        else:
            out.setdefault(k, []).extend(v)
    return out


def _nocomment(text):
    return "\n".join(ln for ln in text.split("\n") if "# dns_resolver" not in ln)


def _excerpt(text, e):
    line = getattr(e, "line", None)
    if line:
        ls = text.split("\n")
        return repr(ls[max(0, line - 2) : line + 1])[:200]
    return repr(text[:120])


def run_case(acc, cp, base, devs):
    settings = build_settings(base, devs)
    acc.transitions += 1
    bad = check_config(cp, settings)
    label = (base,) + tuple((l, str(v[0])) for l, i, v in devs)
    acc.case(label, outcome=bad[0] if bad else len(settings))
    if bad:
        acc.fail(bad[0], {"kind": "config", "base": base, "deviations": [[l, str(v[0])] for l, i, v in devs], "block": tlv.encode(settings).hex()}, bad[1], bad[2])


def chunk_dev(chunk, acc):
    from vmc import profile_env

    cp = profile_env.install(True)
    M = menu()
    base = chunk["base"]
    if chunk["first"] is None:
        acc.states += 1
        run_case(acc, cp, base, ())
        acc.sample({"base": base, "deviations": []})
        return
    lab, idx, vals = M[chunk["first"]]
    if chunk.get("k", 1) == 1:
        for v in vals:
            acc.states += 1
            run_case(acc, cp, base, ((lab, idx, v),))
    else:
        lite = chunk.get("lite")
        for v in vals[:3] if lite else vals:
            for lab2, idx2, vals2 in (M[: chunk["first"]] + M[chunk["first"] + 1 :]) if lite else M[chunk["first"] + 1 :]:
                for v2 in vals2[:2] if lite else vals2[:4]:
                    acc.states += 1
                    run_case(acc, cp, base, ((lab, idx, v), (lab2, idx2, v2)))
    acc.sample({"base": base, "deviation": [lab, str(vals[0][0])], "values": len(vals)})


def chunk_order(chunk, acc):
    """Every subset-and-order aspect: settings in reversed / rotated order, and only a handful of settings present."""
    from vmc import profile_env

    cp = profile_env.install(True)
    s = RC.http_settings()
    extra = [(43, 1, b"\x00\x40"), (44, 1, b"\x00\x20"), (51, 3, P.execute_list(["CreateThread", "NtQueueApcThread-s"]).ljust(64, b"\x00")), (78, 3, bg(list(P.BG_COMMS))), (60, 3, b"cdn.\x00")]
    variants = {"reversed-tail": s[:1] + list(reversed(s[1:])), "rotated": s[:1] + s[5:] + s[1:5], "with-extra-first": s[:1] + extra + s[1:], "with-extra-last": s + extra}
    for r in range(1, 4):
        for subset in itertools.combinations(range(1, len(s)), r):
            if sum(subset) % 7 == 0:
                variants[f"only-{subset}"] = s[:1] + [s[i] for i in subset]
    for name, settings in variants.items():
        acc.states += 1
        acc.transitions += 1
        bad = check_config(cp, settings)
        acc.case(name, outcome=bad[0] if bad else len(settings))
        if bad:
            acc.fail(bad[0] + "/order", {"kind": "config", "base": "http", "deviations": [["order", name]], "block": tlv.encode(settings).hex()}, bad[1], bad[2])
    acc.sample({"orders": ["reversed-tail", "rotated", "extra settings first/last", "subsets of 1..3 settings"]})


def chunk_uncached(chunk, acc):
    from vmc import profile_env

    cp = profile_env.install(False)
    try:
        M = menu()
        for base in ("http", "dns"):
            run_case(acc, cp, base, ())
            for lab, idx, vals in M[::6]:
                acc.states += 1
                run_case(acc, cp, base, ((lab, idx, vals[0]),))
    finally:
        profile_env.install(True)
    acc.sample({"uncached": "subset with the real Reconstructor construction path"})


def run_chunk(chunk, acc):
    globals()["chunk_" + chunk["kind"]](chunk, acc)


def replay(case):
    from vmc import profile_env

    cp = profile_env.install(False)
    settings = [(i, t, v) for (i, t, l, v) in tlv.decode(bytes.fromhex(case["block"]))]
    bad = check_config(cp, settings)
    return {"ok": bad is None, "expected": bad[1] if bad else None, "observed": {"signature": bad[0], "detail": bad[2]} if bad else None}


def standalone(case):
    if not case:
        return None
    return (
        "from dissect.cobaltstrike import beacon, c2profile\n"
        f"cfg = beacon.BeaconConfig(bytes.fromhex({case['block']!r}))\n"
        "text = c2profile.C2Profile.from_beacon_config(cfg).as_text(); print(text)\n"
        "print(c2profile.C2Profile.from_text(text).as_dict())\n"
    )
