"""C04 - HTTP data transforms follow the Malleable C2 wire format and are invertible (form G; HttpDataTransform)."""

from __future__ import annotations

import inspect
import itertools
import random

from vmc.kernel import sequences
from vmc.ref import malleable as M
from vmc.runner import lcg

ID = "C04"
LEVEL = "model_checking"
RULE = (
    "construction automaton: append one encoder step to a data block, close it with one of the four terminations, "
    "append up to three blocks and static decorations; every program up to the depth bound x every payload of the "
    "payload family x every scripted mask key x {no, populated} initial request is run through "
    "HttpDataTransform.transform/recover and through the independent reference peer (vmc/ref/malleable.py) in both "
    "directions. non-trivial = the payload is non-empty or the program has at least one encoder"
    '. Added: the three construction forms (explicit BUILD, build= keyword in transform / recover order), per-block payloads incl. empty / unset, initial requests with a body. '
)
ASSUMPTIONS = [
    "base64url output is accepted with or without '=' padding",
    "mask keys are the enumerated environment answers of random.getrandbits(32), not all 2^32 keys",
    "within one program every termination target (header name, parameter name, body, URI) is used once",
    "the base URI of an initial request is known to the recovering side (passed as base_uri when the API offers it)",
]
BOUNDS = {"quick": {"depth": 3, "multi_depth": 1}, "thorough": {"depth": 4, "multi_depth": 1}}

MASKS = (0x00000000, 0xFFFFFFFF, 0x41414141, 0x0D0A3D00, 0xDEADBEEF)
ENC = [("BASE64", None), ("BASE64URL", None), ("NETBIOS", None), ("NETBIOSU", None), ("MASK", None),
       ("PREPEND", b""), ("PREPEND", b"ab"), ("PREPEND", b"\x00\xff="), ("APPEND", b""), ("APPEND", b"xy"), ("APPEND", b"=\x80")]
TERMS = [("PRINT", None), ("HEADER", b"Cookie"), ("PARAMETER", b"q"), ("URI_APPEND", None)]
INITIALS = {
    "none": None,
    "populated": {"uri": b"/base", "params": {b"p0": b"v0"}, "headers": {b"User-Agent": b"UA/1.0", b"Host": b"h.example"}, "body": b""},
    "populated-nouri": {"uri": b"", "params": {b"p0": b"v0"}, "headers": {b"User-Agent": b"UA/1.0"}, "body": b""},
    "populated-body": {"uri": b"/b", "params": {}, "headers": {b"Content-Type": b"x"}, "body": b"INITIAL-BODY"},
}


def payloads(seed):
    ramp = bytes(range(256))
    return [b"", b"\x00", b"A", bytes(lcg(15, seed)), bytes(lcg(16, seed + 1)), bytes(lcg(17, seed + 2)), ramp, bytes(lcg(1000, seed + 3))]


def plan(tier, seed):
    ch = []
    for ti, t in enumerate(TERMS):
        for ei in range(len(ENC) + 1):
            ch.append({"key": f"single/{t[0]}/{ei}", "kind": "single", "term": ti, "first": ei - 1, "cost": len(ENC) ** (BOUNDS[tier]["depth"] - 1) + 1})
    ch.append({"key": "multi", "kind": "multi", "cost": 400})
    ch.append({"key": "statics", "kind": "statics", "cost": 100})
    for i in range(8):
        ch.append({"key": f"server/{i}", "kind": "server", "part": i, "cost": 300})
    ch.append({"key": "unknown-step", "kind": "unknown", "cost": 1})
    return ch


def to_lib(program):
    out = []
    for op, arg in program:
        out.append((op, True if arg is None else arg))
    return out


class ScriptedBits:
    def __init__(self, value):
        self.value = value
        self.calls = 0

    def __call__(self, k):
        assert k == 32
        self.calls += 1
        return self.value


def lib_msg(req):
    return {"uri": req.uri, "params": dict(req.params), "headers": dict(req.headers), "body": req.body}


def mk_request(c2, initial):
    if initial is None:
        return None
    return c2.HttpRequest(method=b"GET", uri=initial["uri"], params=dict(initial["params"]), headers=dict(initial["headers"]), body=initial["body"])


def strip_pad_equal(a: bytes, b: bytes):
    return a == b


def run_client_case(program, data, mask, init_name, form="steps"):
    """Return None if everything agrees, else (signature, expected, observed)."""
    from dissect.cobaltstrike import c2

    initial = INITIALS[init_name]
    kinds = [arg for op, arg in program if op == "BUILD"]
    c2d = {k: (data.get(k) if isinstance(data, dict) else data) for k in kinds}
    has_uri = any(op == "URI_APPEND" for op, _ in program)
    base_uri = initial["uri"] if initial else b""
    key = mask.to_bytes(4, "big")
    nmask = sum(1 for op, _ in program if op == "MASK")
    # --- reference encodings (padded and unpadded base64url)
    ref_pad = M.encode_message(program, c2d, initial, masks=iter([key] * nmask), b64url_pad=True)
    ref_nopad = M.encode_message(program, c2d, initial, masks=iter([key] * nmask), b64url_pad=False)
    # --- library transform
    sb = ScriptedBits(mask)
    real = random.getrandbits
    random.getrandbits = sb
    try:
        steps = to_lib(program)
        steps_before = list(steps)
        if form == "steps":
            tr = c2.HttpDataTransform(steps)
        else:
            # the same single-block program handed over as bare block steps plus the build= keyword, in transform
            # order (reverse=False) or in recover order (reverse=True)
            assert program[0][0] == "BUILD" and len(kinds) == 1
            steps = steps[1:] if form == "build-kw" else steps[1:][::-1]
            steps_before = list(steps)
            tr = c2.HttpDataTransform(steps, reverse=(form == "build-kw-reversed"), build=kinds[0])
        req0 = mk_request(c2, initial)
        try:
            out = tr.transform(c2.C2Data(**c2d), request=req0)
            c2d = {k: (v or b"") for k, v in c2d.items()}  # an unset field is sent as empty data
        except Exception as e:  # noqa
            return "C04/transform/exception", "HttpRequest", f"{type(e).__name__}: {e}"
    finally:
        random.getrandbits = real
    if steps != steps_before:
        return "C04/steps-list-mutated", to_js(steps_before), to_js(steps)
    got = lib_msg(out)
    # (a) placement equals the reference encoder's (either padding convention)
    if got != ref_pad and got != ref_nopad:
        loc = [k for k in ("uri", "params", "headers", "body") if got[k] != ref_pad[k]]
        return "C04/transform/placement/" + "+".join(loc), msg_js(ref_pad), msg_js(got)
    # (a') the reference decoder reads the library's message
    try:
        dec = M.decode_message(program, got, base_uri=base_uri)
    except Exception as e:  # noqa
        return "C04/transform/reference-cannot-decode", c2d_js(c2d), f"{type(e).__name__}: {e}"
    if dec != c2d:
        return "C04/transform/reference-decodes-differently", c2d_js(c2d), c2d_js(dec)
    # (b)/(c) the library recovers from reference-encoded and from its own messages
    for label, msg in (("own", got), ("ref-padded", ref_pad), ("ref-unpadded", ref_nopad)):
        http = c2.HttpRequest(method=b"GET", uri=msg["uri"], params=dict(msg["params"]), headers=dict(msg["headers"]), body=msg["body"])
        try:
            if has_uri and base_uri and "base_uri" in inspect.signature(tr.recover).parameters:
                rec = tr.recover(http, base_uri=base_uri)
            else:
                rec = tr.recover(http)
        except Exception as e:  # noqa
            sig = "C04/recover/exception"
            if has_uri and base_uri:
                sig = "C04/uri_append/nonempty-base-uri"
            elif any(op == "_PARAMETER" for op, _ in program):
                sig += "/static-parameter"
            return sig, c2d_js(c2d), f"{label}: {type(e).__name__}: {e}"
        recd = {k: getattr(rec, k) for k in ("metadata", "id", "output")}
        want = {k: c2d.get(k) for k in ("metadata", "id", "output")}
        if recd != want:
            if has_uri and base_uri:
                sig = "C04/uri_append/nonempty-base-uri"
            elif any(op == "APPEND" and arg == b"" for op, arg in program):
                sig = "C04/recover/empty-append"
            else:
                sig = "C04/recover/value"
            return sig + f"/{label}" if sig == "C04/recover/value" else sig, c2d_js(want), c2d_js(recd)
        if type(rec).__name__ != "ClientC2Data":
            return "C04/recover/type", "ClientC2Data", type(rec).__name__
    # (d) statics present and initial decorations preserved
    for op, arg in program:
        if op in ("_HEADER", "_HOSTHEADER"):
            k, _, v = arg.partition(b": ")
            if got["headers"].get(k) != v:
                return "C04/static/header", {k.hex(): v.hex()}, msg_js(got)
        if op == "_PARAMETER":
            k, _, v = arg.partition(b"=")
            if got["params"].get(k) != v:
                return "C04/static/parameter", {k.hex(): v.hex()}, msg_js(got)
    return None


def to_js(program):
    return [[op, arg.hex() if isinstance(arg, (bytes, bytearray)) else arg] for op, arg in program]


def from_js(p):
    return [(op, bytes.fromhex(arg) if isinstance(arg, str) and op != "BUILD" else arg) for op, arg in p]


def msg_js(m):
    return {"uri": m["uri"].hex(), "params": {k.hex(): v.hex()[:200] for k, v in m["params"].items()}, "headers": {k.hex(): v.hex()[:200] for k, v in m["headers"].items()}, "body": m["body"].hex()[:200]}


def c2d_js(d):
    return {k: (v.hex()[:200] if isinstance(v, (bytes, bytearray)) else v) for k, v in d.items()}


def explore_program(acc, program, seed, inits=("none", "populated"), datas=None):
    forms = program[0][0] == "BUILD" and sum(1 for op, _ in program if op == "BUILD") == 1 and datas is None
    nmask = sum(1 for op, _ in program if op == "MASK")
    masks = MASKS if nmask else MASKS[4:]
    nenc = sum(1 for op, _ in program if op in M.ENCODERS)
    for di, data in enumerate(datas if datas is not None else payloads(seed)):
        for mask in masks:
            for init in inits:
                acc.transitions += 1
                bad = run_client_case(program, data, mask, init)
                acc.case((tuple(program), di, mask, init), nontrivial=bool(data) or nenc > 0, outcome=bad[0] if bad else (len(data), nenc))
                if bad:
                    dj = {k: (None if v is None else v.hex()) for k, v in data.items()} if isinstance(data, dict) else data.hex()
                    acc.fail(bad[0], {"kind": "client", "program": to_js(program), "data": dj, "mask": mask, "initial": init}, bad[1], bad[2])
                if forms and di in (1, 3) and mask == masks[0] and init == inits[0]:
                    for form in ("build-kw", "build-kw-reversed"):
                        acc.transitions += 1
                        bad = run_client_case(program, data, mask, init, form=form)
                        acc.case((tuple(program), di, mask, init, form), nontrivial=bool(data) or nenc > 0, outcome=bad[0] if bad else (len(data), nenc))
                        if bad:
                            acc.fail(bad[0] + "/" + form, {"kind": "client", "program": to_js(program), "data": data.hex(), "mask": mask, "initial": init, "form": form}, bad[1], bad[2])


def chunk_single(chunk, acc):
    depth = BOUNDS[acc.tier]["depth"]
    term = TERMS[chunk["term"]]
    if chunk["first"] < 0:
        seqs = [()]
    else:
        seqs = [(ENC[chunk["first"]],) + r for r in sequences(ENC, depth - 1)]
    for kind in ("metadata", "id", "output"):
        for seq in seqs:
            # id/output blocks use the same code path as metadata; explore them for the shorter programs only
            if kind != "metadata" and len(seq) > 1:
                continue
            program = [("BUILD", kind)] + list(seq) + [term]
            acc.states += 1
            explore_program(acc, program, acc.seed)
            if len(seq) <= 1:
                explore_program(acc, program, acc.seed, inits=("populated-body",), datas=payloads(acc.seed)[:4])
    acc.sample({"program": to_js([("BUILD", "metadata")] + list(seqs[-1]) + [term]), "payload_lengths": [len(p) for p in payloads(acc.seed)], "masks": [f"{m:08x}" for m in MASKS]})


def chunk_multi(chunk, acc):
    """Two and three build blocks with distinct termination targets, each with 0..1 encoders."""
    encs = [()] + [(e,) for e in ENC[:5]] + [(ENC[6],), (ENC[9],)]
    terms = TERMS + [("HEADER", b"X-Id"), ("PARAMETER", b"id")]
    kinds2 = [("id", "output"), ("metadata", "output")]
    datas = [b"", b"A", bytes(lcg(17, acc.seed)), bytes(range(256))]
    for ka, kb in kinds2:
        for ta, tb in itertools.permutations(terms, 2):
            if ta[0] == tb[0] and ta[1] == tb[1]:
                continue
            if ta[0] == "URI_APPEND" and tb[0] == "URI_APPEND":
                continue
            for ea in encs:
                for eb in encs[:4]:
                    program = [("BUILD", ka)] + list(ea) + [ta, ("BUILD", kb)] + list(eb) + [tb]
                    acc.states += 1
                    explore_program(acc, program, acc.seed, inits=("none",), datas=datas[1:3])
                    if len(ea) + len(eb) <= 1:
                        # different payloads per block, including an empty / unset later or earlier block
                        per = [{ka: b"1234", kb: b""}, {ka: b"1234", kb: None}, {ka: b"", kb: b"OUT"}, {ka: b"id-7", kb: bytes(lcg(17, acc.seed))}]
                        explore_program(acc, program, acc.seed, inits=("none",), datas=per)
    for ta, tb, tc in itertools.permutations(terms[:3] + terms[4:], 3):
        program = [("BUILD", "metadata"), ("BASE64", None), ta, ("BUILD", "id"), ("NETBIOS", None), tb, ("BUILD", "output"), ("MASK", None), tc]
        acc.states += 1
        explore_program(acc, program, acc.seed, inits=("none", "populated-nouri"), datas=datas)
    acc.sample({"program": to_js([("BUILD", "id"), ("NETBIOS", None), ("PARAMETER", b"id"), ("BUILD", "output"), ("MASK", None), ("PRINT", None)])})


def chunk_statics(chunk, acc):
    statics = [("_HEADER", b"Accept: */*"), ("_HEADER", b"X: a: b"), ("_PARAMETER", b"k=v"), ("_PARAMETER", b"k2=v=w"), ("_HOSTHEADER", b"Host: cdn.example")]
    datas = [b"", b"A", bytes(lcg(17, acc.seed))]
    for n in (1, 2):
        for sts in itertools.permutations(statics, n):
            for pos in ("before", "after"):
                for term in TERMS[:3]:
                    block = [("BUILD", "metadata"), ("BASE64", None), term]
                    program = list(sts) + block if pos == "before" else block + list(sts)
                    acc.states += 1
                    explore_program(acc, program, acc.seed, inits=("none", "populated"), datas=datas)
    acc.sample({"program": to_js([("_PARAMETER", b"k=v"), ("BUILD", "metadata"), ("BASE64", None), ("HEADER", b"Cookie")])})


# ---- server output (recover program, reverse=True, build="output") -------------------------------------------------

SRV = [("BASE64", None), ("BASE64URL", None), ("NETBIOS", None), ("NETBIOSU", None), ("MASK", None), ("PREPEND", 0), ("PREPEND", 3), ("PREPEND", 84), ("APPEND", 0), ("APPEND", 2), ("APPEND", 10)]


def run_server_case(recover_steps, data, mask, filler):
    """recover_steps: the recover program as the configuration stores it (PRINT first, lengths as ints)."""
    from dissect.cobaltstrike import c2

    lib_steps = [(op.lower(), True if arg is None else arg) for op, arg in recover_steps]
    before = list(lib_steps)
    try:
        tr = c2.HttpDataTransform(steps=lib_steps, reverse=True, build="output")
    except Exception as e:  # noqa
        return "C04/server/init-exception", None, f"{type(e).__name__}: {e}"
    server = M.server_steps_from_recover(recover_steps)
    nmask = sum(1 for op, _ in server if op == "MASK")
    key = mask.to_bytes(4, "big")
    for pad in (True, False):
        body = M.encode_steps(server, data, masks=iter([key] * nmask), b64url_pad=pad, filler=filler)
        try:
            rec = tr.recover(c2.HttpResponse(status=200, headers={}, reason=b"OK", body=body))
        except Exception as e:  # noqa
            return "C04/server/recover-exception", data.hex()[:100], f"{type(e).__name__}: {e}"
        if rec.output != data or rec.metadata is not None or rec.id is not None or type(rec).__name__ != "ServerC2Data":
            sig = "C04/server/recover-value"
            if any(op == "APPEND" and arg == 0 for op, arg in recover_steps):
                sig = "C04/recover/empty-append"
            return sig, data.hex()[:100], (rec.output.hex()[:100] if isinstance(rec.output, bytes) else repr(rec))
    # library as the server: its transform must be readable by the reference beacon
    sb = ScriptedBits(mask)
    real = random.getrandbits
    random.getrandbits = sb
    try:
        out = tr.transform(c2.C2Data(output=data))
    except Exception as e:  # noqa
        return "C04/server/transform-exception", None, f"{type(e).__name__}: {e}"
    finally:
        random.getrandbits = real
    try:
        dec = M.decode_steps(server, out.body)
    except Exception as e:  # noqa
        return "C04/server/reference-cannot-decode", data.hex()[:100], f"{type(e).__name__}: {e}"
    if dec != data:
        return "C04/server/reference-decodes-differently", data.hex()[:100], dec.hex()[:100]
    return None


def chunk_server(chunk, acc):
    depth = BOUNDS[acc.tier]["depth"]
    part = chunk["part"]
    datas = payloads(acc.seed)
    n = 0
    for seq in sequences(SRV, depth):
        n += 1
        if n % 8 != part:
            continue
        # seq is in server (transform) order; the configuration stores the undo order, PRINT first
        recover_steps = [("PRINT", None)] + list(reversed(seq))
        acc.states += 1
        nmask = sum(1 for op, _ in seq if op == "MASK")
        for di, data in enumerate(datas):
            for mask in (MASKS if nmask else MASKS[4:]):
                for filler in (0x59, 0x00):
                    acc.transitions += 1
                    bad = run_server_case(recover_steps, data, mask, filler)
                    acc.case((seq, di, mask, filler), nontrivial=bool(data) or bool(seq), outcome=bad[0] if bad else len(data))
                    if bad:
                        acc.fail(bad[0], {"kind": "server", "recover": to_js(recover_steps), "data": data.hex(), "mask": mask, "filler": filler}, bad[1], bad[2])
    acc.sample({"recover_program": to_js([("PRINT", None), ("APPEND", 10), ("PREPEND", 84), ("BASE64URL", None), ("MASK", None)])})


def chunk_unknown(chunk, acc):
    from dissect.cobaltstrike import c2

    acc.states += 1
    for direction in ("transform", "recover"):
        tr = c2.HttpDataTransform([("BUILD", "metadata"), ("ROT13", True), ("PRINT", True)])
        acc.transitions += 1
        try:
            if direction == "transform":
                tr.transform(c2.C2Data(metadata=b"x"))
            else:
                tr.recover(c2.HttpRequest(method=b"GET", uri=b"/", params={}, headers={}, body=b"x"))
            got = "no exception"
        except ValueError:
            got = "ValueError"
        except Exception as e:  # noqa
            got = type(e).__name__
        acc.case(direction, outcome=got)
        if got != "ValueError":
            acc.fail("C04/unknown-step-not-rejected", {"kind": "unknown", "direction": direction}, "ValueError", got)
    acc.sample({"program": [["BUILD", "metadata"], ["ROT13", True], ["PRINT", True]], "expect": "ValueError"})


def run_chunk(chunk, acc):
    globals()["chunk_" + chunk["kind"]](chunk, acc)


def replay(case):
    if case["kind"] == "client":
        d = case["data"]
        d = {k: (None if v is None else bytes.fromhex(v)) for k, v in d.items()} if isinstance(d, dict) else bytes.fromhex(d)
        bad = run_client_case(from_js(case["program"]), d, case["mask"], case["initial"], form=case.get("form", "steps"))
    elif case["kind"] == "server":
        steps = [(op, arg) for op, arg in case["recover"]]
        bad = run_server_case(steps, bytes.fromhex(case["data"]), case["mask"], case["filler"])
    else:
        from vmc.runner import Acc

        a = Acc("replay", "quick", 0)
        chunk_unknown({}, a)
        bad = (a.violations[0]["signature"], a.violations[0]["expected"], a.violations[0]["observed"]) if a.violations else None
    return {"ok": bad is None, "expected": bad[1] if bad else None, "observed": {"signature": bad[0], "value": bad[2]} if bad else None}


def standalone(case):
    if case and case.get("kind") == "client":
        return (
            "import random\nfrom dissect.cobaltstrike import c2\n"
            f"steps = [(op, True if a is None else (bytes.fromhex(a) if isinstance(a, str) and op != 'BUILD' else a)) for op, a in {case['program']!r}]\n"
            f"random.getrandbits = lambda k: {case['mask']}\n"
            "tr = c2.HttpDataTransform(steps)\n"
            f"d = bytes.fromhex({case['data']!r}); kinds = [a for op, a in steps if op == 'BUILD']\n"
            "req = tr.transform(c2.C2Data(**{k: d for k in kinds})); print(req)\nprint(tr.recover(req), 'expected', d)\n"
        )
    return None
