"""C10 - Regenerated profile text preserves every token of the parsed profile (form G over the grammar)."""

from __future__ import annotations

import itertools

from vmc.checks.c12 import PARENTS, wrap
from vmc.kernel import sequences
from vmc.ref import profile as RP

ID = "C10"
LEVEL = "model_checking"
RULE = (
    "sentences are derivation trees over the frozen production table (vmc/ref/profile.py, transcribed from the pinned "
    "grammar); BFS by number of leaf statements: every single statement of every production x every literal of the "
    "literal family, every ordered pair of statements inside each block kind, every pair of top-level blocks, every "
    "data transform up to the step bound x 4 terminations in all 10 positions, variants none/default/v1, empty and "
    "repeated blocks. Each sentence is printed, parsed, regenerated with as_text(), re-tokenised by the independent "
    "tokenizer and re-parsed. non-trivial = the sentence has at least one statement"
    '. Added: non-ASCII and line-boundary characters in literals, the file entry point, reading the dictionary view before regenerating, near-valid texts (rejected or regenerated exactly). '
)
ASSUMPTIONS = [
    "the pseudo-statement `# dns_resolver \"...\";` is output-only (read back as a comment) and not generated",
    "the Reconstructor is memoised by the harness; a subset runs un-memoised",
    "no random sentences beyond the bound are drawn (that would be sampling)",
]
BOUNDS = {"quick": {"dt_steps": 3, "pairs": "same-block"}, "thorough": {"dt_steps": 4, "pairs": "same-block+triples"}}
LITERALS = ('""', '"a"', '"\\""', '"\\\\"', '"\\x41"', '"A"', '"a\nb"', '"# ; { }"', '"a b"', '"a  b"', '"a\tb"', '" a"', '"{\n\n}"', '"\n\n"', '";\n\n{\n"', '"}\n\n\n{ ;"', '"don\\\'t"', '"\\\\\'"', '"\'"', '"\u00fc"', '"\u00e9\u00ff\u00a0x"', '"\u03a9"', '"a\rb"', '"a\r\nb"', '"a\x0cb\x0bc"', '"a\x1cb\x1dc\x1ed"', '"a\x85b"', '"a\u2028b\u2029c"', '"a\n#main { }\nb"', '"\n  #!/bin/sh\n# x\n"')
DT_POSITIONS = [
    ("http_stager", "client", "http_options", "output"), ("http_stager", "server", "http_options", "output"),
    ("http_get", "client", "http_client", "metadata"), ("http_get", "client", "http_client", "id"), ("http_get", "client", "http_client", "output"), ("http_get", "server", "http_options", "output"),
    ("http_post", "client", "http_client", "metadata"), ("http_post", "client", "http_client", "id"), ("http_post", "client", "http_client", "output"), ("http_post", "server", "http_options", "output"),
]
TOP_KW = {"http_stager": "http-stager", "http_get": "http-get", "http_post": "http-post"}


def mk(form, lits=None):
    if form[0] == "s":
        n = form[3]
        if lits is None:
            lits = ('"a"',) if n == 1 else ('"k"', '"v"')[:n]
        lits = tuple(lits)[:n]
        if len(lits) < n:
            lits = lits + ('"v"',) * (n - len(lits))
        return ("s", form[1], form[2], lits)
    if form[0] == "b":
        return ("b", form[1], form[2], None, form[4], [])
    return ("dt", form[1], form[2], [])


def plan(tier, seed):
    ch = []
    kinds = list(RP.PRODUCTIONS) + ["steps", "termination"]
    for k in kinds:
        ch.append({"key": f"single/{k}", "kind": "single", "blockkind": k, "cost": 400})
    for k in kinds:
        ch.append({"key": f"nearvalid/{k}", "kind": "nearvalid", "blockkind": k, "cost": 600})
    for k in RP.PRODUCTIONS:
        n = len(RP.PRODUCTIONS[k])
        parts = max(1, n * n // 150)
        for p in range(parts):
            ch.append({"key": f"pairs/{k}/{p}", "kind": "pairs", "blockkind": k, "part": p, "parts": parts, "cost": n * n // parts})
    ch.append({"key": "toplevel-pairs", "kind": "toppairs", "cost": 150})
    for i in range(len(DT_POSITIONS)):
        ch.append({"key": f"dt/{i}", "kind": "dt", "pos": i, "cost": 1700 if tier == "quick" else 12000})
    ch.append({"key": "variants", "kind": "variants", "cost": 150})
    ch.append({"key": "structure", "kind": "structure", "cost": 100})
    ch.append({"key": "uncached", "kind": "uncached", "cost": 1500})
    if tier == "thorough":
        for k in RP.PRODUCTIONS:
            for p in range(8):
                ch.append({"key": f"triples/{k}/{p}", "kind": "triples", "blockkind": k, "part": p, "cost": 2000})
    return ch


def leaf_forms(st, kind="start", out=None):
    """(kind, form-id) of every statement form used by a sentence statement (for production coverage)."""
    out = out if out is not None else []
    if st[0] == "s":
        out.append(f"{kind}:{' '.join(st[2])}/{len(st[3])}")
    elif st[0] == "b":
        out.append(f"{kind}:{st[2]}{{}}")
        for s in st[5]:
            leaf_forms(s, st[4], out)
    else:
        out.append(f"{kind}:{st[2]}{{}}")
        for steps, term in st[3]:
            for s in steps:
                leaf_forms(s, "steps", out)
            leaf_forms(term, "termination", out)
    return out


def roundtrip(cp, sent, style=0, read_first=False):
    """None if fine, else (signature, expected, observed)."""
    toks = RP.sentence_tokens(sent)
    src = RP.render(toks, style)
    try:
        p1 = cp.C2Profile.from_text(src)
    except Exception as e:  # noqa
        return "C10/parse/rejected", toks, f"{type(e).__name__}: {str(e)[:200]}"
    if read_first:
        # the other views of the profile are read before the text is regenerated
        try:
            p1.as_dict()
            p1.properties
            if p1.tree != cp.C2Profile.from_text(src).tree:
                return "C10/reading-the-dictionary-changes-the-tree", toks, str(p1.tree)[:300]
        except Exception as e:  # noqa
            return "C10/as_dict/exception", toks, f"{type(e).__name__}: {str(e)[:200]}"
    try:
        text = p1.as_text()
    except Exception as e:  # noqa
        return "C10/as_text/exception", toks, f"{type(e).__name__}: {str(e)[:200]}"
    try:
        got = RP.tokenize(text)
    except Exception as e:  # noqa
        return "C10/as_text/untokenizable", toks, f"{e}: {text[:200]!r}"
    if got != toks:
        i = next((i for i, (a, b) in enumerate(zip(got, toks)) if a != b), min(len(got), len(toks)))
        sig = "C10/tokens/changed"
        if i < len(toks) and i < len(got) and not toks[i].startswith('"'):
            sig = f"C10/tokens/keyword/{toks[i]}->{got[i]}"
        return sig, toks[max(0, i - 3) : i + 3], got[max(0, i - 3) : i + 3]
    try:
        p2 = cp.C2Profile.from_text(text)
    except Exception as e:  # noqa
        return "C10/reparse/rejected", toks, f"{type(e).__name__}: {str(e)[:200]}"
    if p2.tree != p1.tree:
        return "C10/reparse/tree-differs", str(p1.tree)[:300], str(p2.tree)[:300]
    return None


_TMP = {}


def path_entry(acc, cp, sent, label):
    """The file entry point: the same text stored in a file (written with the platform's default text encoding, which
    is what from_path reads with) gives the same tree as from_text, and its regenerated text the same tokens."""
    import os
    import tempfile

    toks = RP.sentence_tokens(sent)
    src = RP.render(toks, 1)
    if "\r" in src:
        return  # text-mode file reading translates CR / CRLF (universal newlines): not the same text any more
    if "dir" not in _TMP:
        _TMP["dir"] = tempfile.mkdtemp(prefix="vmc_c10_")
    path = os.path.join(_TMP["dir"], "p.profile")
    try:
        with open(path, "w") as f:
            f.write(src)
    except UnicodeEncodeError:
        return  # not representable in this platform's default encoding: no such file can exist
    acc.transitions += 1
    bad = None
    try:
        p1 = cp.C2Profile.from_text(src)
        pf = cp.C2Profile.from_path(path)
        if pf.tree != p1.tree:
            bad = ("C10/from_path/tree-differs-from-from_text", str(p1.tree)[:300], str(pf.tree)[:300])
        elif RP.tokenize(pf.as_text()) != toks:
            bad = ("C10/from_path/tokens", toks, RP.tokenize(pf.as_text()))
    except Exception as e:  # noqa
        bad = ("C10/from_path/exception", toks, f"{type(e).__name__}: {str(e)[:200]}")
    finally:
        os.unlink(path)
    acc.case((label, "path", tuple(toks)), nontrivial=True, outcome=bad[0] if bad else len(toks))
    if bad:
        acc.fail(bad[0], {"kind": "path", "tokens": toks}, bad[1], bad[2])


def run_sentence(acc, cp, sent, label, style=0, read_first=False):
    acc.transitions += 1
    bad = roundtrip(cp, sent, style, read_first)
    toks = RP.sentence_tokens(sent)
    for st in sent:
        for fid in leaf_forms(st):
            acc.count("form:" + fid)
    acc.case((label, tuple(toks), style, read_first), nontrivial=bool(toks), outcome=bad[0] if bad else len(toks))
    if bad:
        acc.fail(bad[0], {"kind": "sentence", "tokens": toks, "style": style, "read_first": read_first}, bad[1], bad[2])


def chunk_single(chunk, acc):
    from vmc import profile_env

    cp = profile_env.install(True)
    kind = chunk["blockkind"]
    forms = [f for k, f in RP.all_forms() if k == kind]
    for f in forms:
        acc.states += 1
        if f[0] == "s" and f[3] > 0:
            for lit in LITERALS:
                lits = (lit,) if f[3] == 1 else (lit, LITERALS[(LITERALS.index(lit) + 3) % len(LITERALS)])
                run_sentence(acc, cp, wrap(kind, mk(f, lits)), "single", style=0)
                path_entry(acc, cp, wrap(kind, mk(f, lits)), "single")
            run_sentence(acc, cp, wrap(kind, mk(f)), "single", style=1, read_first=True)
        else:
            run_sentence(acc, cp, wrap(kind, mk(f)), "single", style=0)
            run_sentence(acc, cp, wrap(kind, mk(f)), "single", style=1)
    if "dir" in _TMP:
        import os

        os.rmdir(_TMP.pop("dir"))
    acc.sample({"block_kind": kind, "sentence": RP.sentence_tokens(wrap(kind, mk(forms[0])))})


def chunk_nearvalid(chunk, acc):
    """Texts one token edit away from a valid sentence (a stray `;`, an unknown `set` statement, an unknown keyword):
    the parser may reject them - but whatever it accepts must regenerate with every token, like any accepted text."""
    from vmc import profile_env

    cp = profile_env.install(True)
    kind = chunk["blockkind"]
    forms = [f for k, f in RP.all_forms() if k == kind]
    for f in forms:
        toks = RP.sentence_tokens(wrap(kind, mk(f)))
        acc.states += 1
        variants = []
        for i in range(len(toks) + 1):
            variants.append(toks[:i] + [";"] + toks[i:])
            if i == 0 or toks[i - 1] in (";", "{", "}"):
                variants.append(toks[:i] + ["set", "zz_unknown", '"v"', ";"] + toks[i:])
                variants.append(toks[:i] + ["zz_unknown", '"v"', ";"] + toks[i:])
                variants.append(toks[:i] + ["zz_unknown", ";"] + toks[i:])
        for i, t in enumerate(toks):
            if not t.startswith('"') and t not in (";", "{", "}"):
                variants.append(toks[:i] + ["zz_unknown"] + toks[i + 1 :])
        for v in variants:
            src = RP.render(v, 1)
            acc.transitions += 1
            try:
                p1 = cp.C2Profile.from_text(src)
            except Exception:  # noqa  (rejected: nothing to regenerate)
                acc.case(("near", tuple(v)), nontrivial=True, outcome="rejected")
                continue
            try:
                got = RP.tokenize(p1.as_text())
            except Exception as e:  # noqa
                got = f"{type(e).__name__}: {str(e)[:100]}"
            acc.case(("near", tuple(v)), nontrivial=True, outcome="accepted" if got == v else "accepted-lossy")
            if got != v:
                acc.fail("C10/near-valid/accepted-but-tokens-not-preserved", {"kind": "nearvalid", "tokens": v}, v, got)
    acc.sample({"block_kind": kind, "edits": ["stray ;", "set zz_unknown \"v\";", "zz_unknown \"v\";", "zz_unknown;", "keyword -> zz_unknown"]})


def chunk_pairs(chunk, acc):
    from vmc import profile_env

    cp = profile_env.install(True)
    kind = chunk["blockkind"]
    forms = RP.PRODUCTIONS[kind]
    n = 0
    for f1, f2 in itertools.product(forms, repeat=2):
        n += 1
        if n % chunk["parts"] != chunk["part"]:
            continue
        acc.states += 1
        a, b = mk(f1), mk(f2, ('"b"',) if f2[0] == "s" and f2[3] == 1 else None)
        if kind == "start":
            sent = [a, b]
        else:
            path = PARENTS[kind]
            body = [a, b]
            for alias, kw, k in reversed(path):
                body = [("b", alias, kw, None, k, body)]
            sent = body
        run_sentence(acc, cp, sent, "pair")
    acc.sample({"block_kind": kind, "pairs": len(forms) ** 2})


def chunk_triples(chunk, acc):
    from vmc import profile_env

    cp = profile_env.install(True)
    kind = chunk["blockkind"]
    forms = RP.PRODUCTIONS[kind]
    # all ordered triples over a reduced form set (every 3rd form + all block forms) inside the block
    red = [f for i, f in enumerate(forms) if f[0] != "s" or i % 3 == 0][:12]
    n = 0
    for fs in itertools.product(red, repeat=3):
        n += 1
        if n % 8 != chunk["part"]:
            continue
        acc.states += 1
        body = [mk(f) for f in fs]
        for alias, kw, k in reversed(PARENTS[kind]):
            body = [("b", alias, kw, None, k, body)]
        run_sentence(acc, cp, body, "triple")
    acc.sample({"block_kind": kind, "triples_over": len(red)})


def chunk_toppairs(chunk, acc):
    from vmc import profile_env

    cp = profile_env.install(True)
    blocks = [f for f in RP.PRODUCTIONS["start"] if f[0] == "b"]
    for f1, f2 in itertools.product(blocks, repeat=2):
        acc.states += 1
        s1 = ("b", f1[1], f1[2], None, f1[4], [mk(RP.PRODUCTIONS[f1[4]][0])])
        s2 = ("b", f2[1], f2[2], None, f2[4], [mk(RP.PRODUCTIONS[f2[4]][-1])])
        run_sentence(acc, cp, [s1, s2], "toppair")
    acc.sample({"blocks": [f[2] for f in blocks]})


def dt_sentence(pos, groups):
    top, side, sidekind, name = DT_POSITIONS[pos]
    dt = ("dt", name, name, groups)
    return [("b", top, TOP_KW[top], None, top, [("b", side, side, None, sidekind, [dt])])]


def chunk_dt(chunk, acc):
    from vmc import profile_env

    cp = profile_env.install(True)
    steps_forms = RP.TRANSFORM_STEPS
    terms = RP.TERMINATIONS
    depth = BOUNDS[acc.tier]["dt_steps"]
    for seq in sequences(steps_forms, depth):
        for t in terms:
            acc.states += 1
            steps = [mk(f, ('"x\\x00"',)) for f in seq]
            run_sentence(acc, cp, dt_sentence(chunk["pos"], [(steps, mk(t, ('"Cookie"',)))]), "dt")
    # containers with zero and two groups
    run_sentence(acc, cp, dt_sentence(chunk["pos"], []), "dt0")
    g1 = ([mk(steps_forms[1])], mk(terms[0], ('"A"',)))
    g2 = ([mk(steps_forms[3]), mk(steps_forms[6], ('"p"',))], mk(terms[2]))
    run_sentence(acc, cp, dt_sentence(chunk["pos"], [g1, g2]), "dt2")
    acc.sample({"position": ".".join(DT_POSITIONS[chunk["pos"]][i] for i in (0, 1, 3)), "max_steps": depth, "example": RP.sentence_tokens(dt_sentence(chunk["pos"], [g2]))})


def chunk_variants(chunk, acc):
    from vmc import profile_env

    cp = profile_env.install(True)
    vb = [f for f in RP.PRODUCTIONS["start"] if f[0] == "b" and f[3]]
    for f in vb:
        for variant in (None, '"default"', '"Default"', '"v1"', '"a b"', '""'):
            for body in ([], [mk(RP.PRODUCTIONS[f[4]][0])], [mk(x) for x in RP.PRODUCTIONS[f[4]][:3]]):
                acc.states += 1
                run_sentence(acc, cp, [("b", f[1], f[2], variant, f[4], body)], "variant")
                run_sentence(acc, cp, [("b", f[1], f[2], variant, f[4], body)], "variant", read_first=True)
        # the same block twice with different variants
        run_sentence(acc, cp, [("b", f[1], f[2], None, f[4], []), ("b", f[1], f[2], '"v1"', f[4], [mk(RP.PRODUCTIONS[f[4]][0])]), ("b", f[1], f[2], '"v2"', f[4], [])], "variant-rep")
    acc.sample({"variant_blocks": [f[2] for f in vb], "variants": [None, "default", "v1", "a b", ""]})


def chunk_structure(chunk, acc):
    from vmc import profile_env

    cp = profile_env.install(True)
    run_sentence(acc, cp, [], "empty")
    for f in [f for f in RP.PRODUCTIONS["start"] if f[0] == "b"]:
        acc.states += 1
        e = mk(f)
        run_sentence(acc, cp, [e, e], "repeat")
        run_sentence(acc, cp, [e, mk(RP.PRODUCTIONS["start"][0]), e], "repeat")
        full = ("b", f[1], f[2], None, f[4], [mk(x) for x in RP.PRODUCTIONS[f[4]]])
        run_sentence(acc, cp, [full], "full-block")
    # every production of the table at once, in table order
    everything = [mk(f) if f[0] == "s" else ("b", f[1], f[2], None, f[4], _fill(f[4])) for f in RP.PRODUCTIONS["start"]]
    run_sentence(acc, cp, everything, "everything")
    run_sentence(acc, cp, list(reversed(everything)), "everything-reversed")
    acc.sample({"sentence": "every production of the table in one profile", "tokens": len(RP.sentence_tokens(everything))})


def _fill(kind, depth=0):
    body = []
    for f in RP.PRODUCTIONS[kind]:
        if f[0] == "s":
            body.append(mk(f))
        elif f[0] == "b":
            body.append(("b", f[1], f[2], None, f[4], _fill(f[4], depth + 1)))
        else:
            g = ([mk(x) for x in RP.TRANSFORM_STEPS], mk(RP.TERMINATIONS[depth % 4]))
            body.append(("dt", f[1], f[2], [g]))
    return body


def chunk_uncached(chunk, acc):
    from vmc import profile_env

    cp = profile_env.install(False)
    try:
        for kind in ("start", "stage", "http_client", "execute", "beacon_gate", "dns_beacon"):
            for f in RP.PRODUCTIONS[kind][::4]:
                acc.states += 1
                run_sentence(acc, cp, wrap(kind, mk(f)), "uncached")
    finally:
        profile_env.install(True)
    acc.sample({"uncached": "every 4th production of six block kinds"})


def run_chunk(chunk, acc):
    globals()["chunk_" + chunk["kind"]](chunk, acc)


def finish(summary):
    """Production coverage must be 100 % of the frozen table; live-grammar productions outside the table are noted."""
    counters = summary["counters"]
    used = {k[5:] for k in counters if k.startswith("form:")}
    table = {RP.form_id(k, f) for k, f in RP.all_forms()}
    missing = sorted(table - used)
    for k in [k for k in counters if k.startswith("form:")]:
        del counters[k]
    counters["productions_in_table"] = len(table)
    counters["productions_exercised"] = len(table & used)
    if missing:
        summary["violations"].append({"signature": "C10/coverage/production-not-exercised", "case": None, "expected": "all productions", "observed": missing[:10], "note": "harness coverage"})
        summary["sigcount"]["C10/coverage/production-not-exercised"] += 1
    try:
        from dissect.cobaltstrike import c2profile

        live = {str(r.alias or r.origin.name) for r in c2profile.c2profile_parser.rules}
        table_aliases = {f[1] for k, f in RP.all_forms()} | {"start", "data_transform", "steps", "termination", "string", "variant", "header", "comment_dns_resolver", "value"}
        for base, spellings in RP.ALIAS_SPELLING.items():
            table_aliases |= set(spellings)
        extra = sorted(a for a in live if a not in table_aliases and not a.startswith("__"))
        if extra:
            summary["notes"].append("live grammar has aliases outside the frozen table (not explored): " + ", ".join(extra[:10]))
    except Exception as e:  # noqa
        summary["notes"].append(f"could not compare with the live grammar: {e}")


def replay(case):
    from vmc import profile_env

    cp = profile_env.install(False)
    toks = case["tokens"]
    if case.get("kind") == "nearvalid":
        try:
            p1 = cp.C2Profile.from_text(RP.render(toks, 1))
        except Exception:  # noqa
            return {"ok": True, "expected": "rejected or regenerated exactly", "observed": "rejected"}
        got = RP.tokenize(p1.as_text())
        return {"ok": got == toks, "expected": toks, "observed": got}
    if case.get("kind") == "path":
        import os
        import tempfile

        src = RP.render(toks, 1)
        d = tempfile.mkdtemp(prefix="vmc_c10_")
        path = os.path.join(d, "p.profile")
        try:
            with open(path, "w") as f:
                f.write(src)
            pf = cp.C2Profile.from_path(path)
            ok = pf.tree == cp.C2Profile.from_text(src).tree and RP.tokenize(pf.as_text()) == toks
            return {"ok": ok, "expected": toks, "observed": RP.tokenize(pf.as_text())}
        except Exception as e:  # noqa
            return {"ok": False, "expected": toks, "observed": f"{type(e).__name__}: {str(e)[:300]}"}
        finally:
            if os.path.exists(path):
                os.unlink(path)
            os.rmdir(d)
    src = RP.render(toks, case.get("style", 0))
    try:
        p1 = cp.C2Profile.from_text(src)
        if case.get("read_first"):
            p1.as_dict()
            p1.properties
        text = p1.as_text()
        got = RP.tokenize(text)
        ok = got == toks and cp.C2Profile.from_text(text).tree == p1.tree
        return {"ok": ok, "expected": toks, "observed": got}
    except Exception as e:  # noqa
        return {"ok": False, "expected": toks, "observed": f"{type(e).__name__}: {str(e)[:300]}"}


def standalone(case):
    if not case:
        return None
    return "from dissect.cobaltstrike.c2profile import C2Profile\nsrc = %r\nprint(C2Profile.from_text(src).as_text())\n" % RP.render(case["tokens"], case.get("style", 0))
