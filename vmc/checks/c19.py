"""C19 - The beacon client keeps a stable identity and dispatches tasks exactly once (forms G + H)."""

from __future__ import annotations

import hashlib
import itertools
import logging
import random
import struct

from vmc.kernel import sequences
from vmc.ref import config as RC
from vmc.ref import keys as K

ID = "C19"
LEVEL = "model_checking"
RULE = (
    "G: every requested beacon id of the boundary family (and `None` with every scripted getrandbits answer), every "
    "name triple of the name family and every sleeptime x jitter x scripted random.uniform answer is run through "
    "HttpBeaconClient.run(dry_run=True). H: for every subset of the six registration kinds, every task history up "
    "to the depth bound over {none, A, B, C, alias 6} is executed by the real _beacon_loop (only get_task scripted "
    "and send_callback recorded); per task the multiset of invoked handlers must equal the registered set for its "
    "command (catch-alls iff that set is empty), each exactly once, regardless of the position in the history; the "
    "registry lists must keep their length. non-trivial = a history with at least one real task / a non-default input"
    '. Added: ids that normalise to one presented id, optional arguments left out, one client configured repeatedly, loop pauses inside the jitter band, handlers that fail, registrations between tasks, an on_<command> method for every command. '
)
ASSUMPTIONS = [
    "random.*, time.time and time.sleep are scripted; nothing touches the network (dry_run or overridden get_task)",
    "an empty check-in is not 'a task received': nothing is required of empty-task handlers except at most one call per check-in",
    "alias command 6 is only registered through decorators (its on_<name> spelling is ambiguous)",
]
BOUNDS = {"quick": {"hist_depth": 4}, "thorough": {"hist_depth": 6}}

CMD_A, CMD_B, CMD_C, CMD_6 = 32, 53, 39, 6  # PS_LIST (registered), FILE_LIST (unregistered), PWD (method only), alias


def plan(tier, seed):
    ch = [
        {"key": "ids", "kind": "ids", "cost": 200},
        {"key": "names", "kind": "names", "cost": 300},
        {"key": "sleep", "kind": "sleep", "cost": 100},
    ]
    for mask in range(64):
        ch.append({"key": f"dispatch/{mask:02d}", "kind": "dispatch", "mask": mask, "cost": 5 ** BOUNDS[tier]["hist_depth"] // 50})
    ch.append({"key": "get_handlers", "kind": "get_handlers", "cost": 50})
    ch.append({"key": "methods/all-commands", "kind": "methods", "cost": 300})
    ch.append({"key": "dispatch/raising-handlers", "kind": "raising", "cost": 300})
    for i in range(len(LATE_ITEMS)):
        ch.append({"key": f"dispatch/late-registration/{i}", "kind": "late", "first": i, "cost": 700})
    return ch


def call(f, *a, **k):
    try:
        return f(*a, **k)
    except Exception as e:  # noqa
        return f"EXC {type(e).__name__}: {e}"


class Seams:
    """Owns the client's nondeterminism for one execution."""

    def __init__(self, getrandbits=None, uniform_frac=0.5):
        self.getrandbits = getrandbits
        self.uniform_frac = uniform_frac
        self.slept = []

    def __enter__(self):
        from dissect.cobaltstrike import client

        self.client = client
        self.saved = (client.time.time, client.time.sleep, random.getrandbits, random.uniform, random.getstate())
        client.time.time = lambda: 1700000000.0
        client.time.sleep = lambda s: self.slept.append(s)
        if self.getrandbits is not None:
            real = self.saved[2]
            first = {"v": self.getrandbits}

            def grb(k):
                if k == 32 and first["v"] is not None:
                    v, first["v"] = first["v"], None
                    return v
                return real(k)

            random.getrandbits = grb
        random.uniform = lambda a, b: a + self.uniform_frac * (b - a)
        return self

    def __exit__(self, *exc):
        c = self.client
        c.time.time, c.time.sleep, random.getrandbits, random.uniform = self.saved[:4]
        random.setstate(self.saved[4])
        c.logger.setLevel(logging.NOTSET)
        return False


def fresh_config(**kw):
    from dissect.cobaltstrike import beacon

    return beacon.BeaconConfig(RC.http_block(**kw))


def leading_zero_ids(n):
    """Even beacon ids whose 16 session-seed bytes (random.seed(id ^ 0xACCE55ED); getrandbits(128)) begin with 00."""
    out, bid = [], 0
    state = random.getstate()
    try:
        while len(out) < n and bid < 20000:
            random.seed(bid ^ 0xACCE55ED)
            if random.getrandbits(128) >> 120 == 0:
                out.append(bid)
            bid += 2
    finally:
        random.setstate(state)
    return out


def chunk_ids(chunk, acc):
    from dissect.cobaltstrike.client import HttpBeaconClient

    ids = list(range(-4, 5)) + list(range(2**31 - 3, 2**31 + 4)) + list(range(2**32 - 3, 2**32 + 4)) + [2**33, 2**33 + 6, -(2**31), -(2**31) - 2, 1234, 1235, 2**32 + 1234, 2**32 + 1235]
    ids += leading_zero_ids(3)
    cfg = fresh_config()
    for bid in ids:
        acc.states += 1
        keys = []
        for attempt in range(2):
            with Seams():
                random.seed(attempt * 99 + 5)
                for _ in range(attempt * 7):
                    random.random()  # unrelated use of the global generator
                cl = HttpBeaconClient()
                res = call(cl.run, cfg, dry_run=True, beacon_id=bid, user="u", computer="c", process="p", internal_ip="10.0.0.5", arch="x64")
            acc.transitions += 1
            if isinstance(res, str):
                keys.append(res)
                if not res.startswith("EXC ValueError"):
                    acc.fail("C19/id/wrong-exception", {"kind": "id", "beacon_id": bid}, "ValueError or even id in [0, 2^31)", res)
                continue
            ok = cl.beacon_id % 2 == 0 and 0 <= cl.beacon_id < 2**31 and cl.metadata.bid == cl.beacon_id
            d = hashlib.sha256(cl.aes_rand).digest()
            if not ok:
                acc.fail("C19/id/not-even-or-out-of-range", {"kind": "id", "beacon_id": bid}, "even id in [0, 2^31)", {"beacon_id": cl.beacon_id, "metadata.bid": cl.metadata.bid})
            if (cl.aes_key, cl.hmac_key) != (d[:16], d[16:]) or bytes(cl.metadata.aes_rand) != cl.aes_rand or (cl.c2http.beacon_keys.aes_key, cl.c2http.beacon_keys.hmac_key) != (d[:16], d[16:]):
                acc.fail("C19/id/keys-not-sha256-halves", {"kind": "id", "beacon_id": bid}, d.hex(), {"aes": cl.aes_key.hex(), "hmac": cl.hmac_key.hex()})
            keys.append((cl.beacon_id, cl.aes_rand))
        acc.case(bid, nontrivial=True, outcome=str(keys[0])[:60])
        if keys[0] != keys[1]:
            acc.fail("C19/id/keys-not-stable-for-same-id", {"kind": "id", "beacon_id": bid}, str(keys[0])[:100], str(keys[1])[:100])
    # the session keys belong to the id: leaving out / giving any of the optional arguments does not change them
    full = dict(pid=4321, user="u", computer="c", process="p", internal_ip="10.0.0.5", arch="x64", barch="x64", sleeptime=1000, jitter=5, user_agent="UA", host_header="h.example", domain="c2.example.com", port=8080, scheme="http", high_integrity=True)
    for bid in (1234, 2, 0x7FFFFFFE):
        acc.states += 1
        seen_keys = {}
        for omit in [()] + [(k,) for k in full] + [tuple(full)]:
            kw = {k: v for k, v in full.items() if k not in omit}
            with Seams():
                cl = HttpBeaconClient()
                res = call(cl.run, cfg, dry_run=True, beacon_id=bid, **kw)
            acc.transitions += 1
            acc.case(("optional-args", bid, omit), nontrivial=True, outcome=res if isinstance(res, str) else cl.aes_rand[:2])
            if isinstance(res, str):
                acc.fail("C19/id/run-failed", {"kind": "id", "beacon_id": bid, "omitted": list(omit)}, "configured client", res)
                continue
            seen_keys[omit] = (cl.beacon_id, cl.aes_rand, cl.aes_key, cl.hmac_key)
        if len(set(seen_keys.values())) > 1:
            ref = seen_keys[()]
            odd = next(o for o, v in seen_keys.items() if v != ref)
            acc.fail("C19/id/keys-depend-on-optional-arguments", {"kind": "id", "beacon_id": bid, "omitted": list(odd)}, ref[1].hex(), seen_keys[odd][1].hex())
    # one client object configured again and again (same configuration object, different ids, in both orders): after
    # each run everything the client encrypts with belongs to the id of that run
    for seq in ((1234, 4242), (4242, 1234), (2, 2, 4), (1234, -1, 4242), (6, 8, 6)):
        acc.states += 1
        with Seams():
            cl = HttpBeaconClient()
            for i, bid in enumerate(seq):
                acc.transitions += 1
                res = call(cl.run, cfg, dry_run=True, beacon_id=bid, user="u", computer="c", process="p", internal_ip="10.0.0.5", arch="x64")
                if isinstance(res, str):
                    continue  # a rejected id: the next run must still be consistent
                d = hashlib.sha256(cl.aes_rand).digest()
                fresh = HttpBeaconClient()
                fresh.run(cfg, dry_run=True, beacon_id=bid, user="u", computer="c", process="p", internal_ip="10.0.0.5", arch="x64")
                obs = (cl.beacon_id, cl.aes_rand, cl.aes_key, cl.hmac_key, cl.c2http.beacon_keys.aes_key, cl.c2http.beacon_keys.hmac_key, cl.metadata.bid, bytes(cl.metadata.aes_rand))
                want = (fresh.beacon_id, fresh.aes_rand, d[:16], d[16:], d[:16], d[16:], fresh.beacon_id, fresh.aes_rand)
                acc.case(("rerun", seq, i), nontrivial=True, outcome=cl.beacon_id)
                if obs != want:
                    acc.fail("C19/id/client-reused-for-another-id", {"kind": "id", "beacon_id": bid, "sequence": list(seq), "step": i}, [str(x.hex() if isinstance(x, bytes) else x) for x in want], [str(x.hex() if isinstance(x, bytes) else x) for x in obs])
    # session keys are a function of the id that is presented: every requested id that normalises to the same
    # presented id yields the same keys
    by_presented = {}
    for bid in ids:
        with Seams():
            cl = HttpBeaconClient()
            res = call(cl.run, cfg, dry_run=True, beacon_id=bid, user="u", computer="c", process="p")
        if isinstance(res, str):
            continue
        acc.transitions += 1
        first = by_presented.setdefault(cl.beacon_id, (bid, cl.aes_rand, cl.aes_key))
        acc.case(("presented", bid), outcome=cl.beacon_id)
        if (cl.aes_rand, cl.aes_key) != first[1:]:
            acc.fail("C19/id/keys-differ-for-the-same-presented-id", {"kind": "id", "beacon_id": bid, "same_presented_id_as": first[0]}, {"presented": cl.beacon_id, "aes_rand": first[1].hex()}, {"aes_rand": cl.aes_rand.hex()})
        if len(cl.aes_rand) != 16:
            acc.fail("C19/id/aes_rand-not-16-bytes", {"kind": "id", "beacon_id": bid}, 16, len(cl.aes_rand))
    # two different accepted ids never share session keys
    seen = {}
    for bid in (0, 2, 4, 1234, 2**31 - 2):
        with Seams():
            cl = HttpBeaconClient()
            cl.run(cfg, dry_run=True, beacon_id=bid, user="u", computer="c", process="p")
        if cl.aes_rand in seen:
            acc.fail("C19/id/distinct-ids-share-keys", {"kind": "id", "beacon_id": bid}, "distinct aes_rand", f"same as {seen[cl.aes_rand]}")
        seen[cl.aes_rand] = bid
    # beacon_id None: the scripted generator decides
    for bits in (0, 1, 2, 0x7FFFFFFE, 0x7FFFFFFF, 0x80000000, 0x80000001, 0xFFFFFFFF, 0xFFFFFFFE):
        acc.states += 1
        acc.transitions += 1
        with Seams(getrandbits=bits):
            cl = HttpBeaconClient()
            res = call(cl.run, cfg, dry_run=True, beacon_id=None)
        acc.case(("none", bits), outcome=str(getattr(cl, "beacon_id", res)))
        if isinstance(res, str) or cl.beacon_id % 2 or not (0 <= cl.beacon_id < 2**31):
            acc.fail("C19/id/random-id-invalid", {"kind": "id_none", "getrandbits": bits}, "even id in [0, 2^31)", res if isinstance(res, str) else cl.beacon_id)
    acc.sample({"beacon_id": 2**31 + 1, "expect": "ValueError", "beacon_id_ok": 2**31 - 1, "expect_ok": 2**31 - 2})


NAMES = ("", "a", "WIN-ABCDEFGHIJK", "x" * 60, "é" * 20, "名前" * 10, "\U0001F600" * 15, "tab\there", "John Smith")


def chunk_names(chunk, acc):
    from dissect.cobaltstrike import c2
    from dissect.cobaltstrike.client import HttpBeaconClient

    for bits in (1024, 2048):
        cfg = fresh_config(key_bits=bits, key_which=acc.seed % 2)
        priv = K.key(bits, acc.seed % 2)
        for user, computer, process in itertools.product(NAMES, NAMES[:8], ("rundll32.exe", "ü" * 30, "")):
            acc.states += 1
            acc.transitions += 1
            with Seams():
                cl = HttpBeaconClient()
                res = call(cl.run, cfg, dry_run=True, beacon_id=1234, user=user, computer=computer, process=process, internal_ip="10.1.2.3")
            case = {"kind": "names", "bits": bits, "user": user, "computer": computer, "process": process}
            full = f"{computer}\t{user}\t{process}".encode()
            acc.case((bits, user, computer, process), nontrivial=bool(user or computer), outcome=len(full))
            if isinstance(res, str):
                acc.fail("C19/names/run-failed", case, "client set up", res)
                continue
            blob = call(c2.encrypt_metadata, cl.metadata, cl.c2http.pub)
            if isinstance(blob, str):
                sig = "C19/names/metadata-does-not-fit-rsa-key"
                if any(ord(ch) > 127 for ch in user + computer + process):
                    sig += "/non-ascii"
                acc.fail(sig, case, f"metadata fits RSA-{bits}", {"error": blob, "info_bytes": len(bytes(cl.metadata.info))})
                continue
            # independent decryption
            em = pow(int.from_bytes(blob, "big"), priv.d, priv.n).to_bytes(bits // 8, "big")
            pt = em[em.index(b"\x00", 2) + 1 :]
            info = pt[59:]
            if not full.startswith(info) or (len(info) == 0 and len(full) > 0) or struct.unpack(">I", pt[24:28])[0] != 1234 - 0 and False:
                acc.fail("C19/names/info-not-a-prefix", case, full.hex()[:120], info.hex()[:120])
            elif len(full) <= 51 and info != full:
                acc.fail("C19/names/short-info-truncated", case, full.hex(), info.hex())
    acc.sample({"user": "é" * 20, "computer": "WIN-ABCDEFGHIJK", "process": "rundll32.exe", "rsa_bits": 1024, "expect": "metadata encrypts; decrypted info is a prefix"})


def chunk_sleep(chunk, acc):
    from dissect.cobaltstrike.client import HttpBeaconClient

    cfg = fresh_config()
    for st in (0, 1, 1000, 60000, 2**31):
        for jit in (0, 1, 50, 99, 100):
            for frac in (0.0, 0.5, 1.0, 0.999999):
                acc.states += 1
                acc.transitions += 1
                with Seams(uniform_frac=frac):
                    cl = HttpBeaconClient()
                    res = call(cl.run, cfg, dry_run=True, beacon_id=2, user="u", computer="c", process="p", sleeptime=st, jitter=jit)
                    got = call(cl.get_sleep_time) if not isinstance(res, str) else res
                lo, hi = st * (1 - jit / 100), st
                acc.case((st, jit, frac), nontrivial=st > 0, outcome=got)
                if isinstance(got, str) or not (lo - 1e-6 <= got <= hi + 1e-6):
                    acc.fail("C19/sleep/outside-jitter-band", {"kind": "sleep", "sleeptime": st, "jitter": jit, "uniform": frac}, [lo, hi], got)
    # the settings are changed while the beacon runs (what a COMMAND_SLEEP handler does): the next interval follows
    # the settings as they are now
    for st0, jit0 in ((1000, 50), (60000, 50), (3000, 0)):
        for st1, jit1 in ((60000, 0), (1000, 10), (5000, 100), (0, 0)):
            for frac in (0.0, 1.0):
                acc.states += 1
                acc.transitions += 1
                with Seams(uniform_frac=frac):
                    cl = HttpBeaconClient()
                    cl.run(cfg, dry_run=True, beacon_id=2, user="u", computer="c", process="p", sleeptime=st0, jitter=jit0)
                    cl.get_sleep_time()
                    cl.sleeptime, cl.jitter = st1, jit1
                    got = call(cl.get_sleep_time)
                lo, hi = st1 * (1 - jit1 / 100), st1
                acc.case(("changed", st0, jit0, st1, jit1, frac), nontrivial=True, outcome=got)
                if isinstance(got, str) or not (lo - 1e-6 <= got <= hi + 1e-6):
                    acc.fail("C19/sleep/outside-jitter-band/after-settings-change", {"kind": "sleep", "sleeptime": st1, "jitter": jit1, "uniform": frac, "before": [st0, jit0]}, [lo, hi], got)
    # defaults come from the configuration
    for st, jit in ((5000, 20), (0, 0)):
        cfg2 = fresh_config(sleeptime=st, jitter=jit)
        with Seams(uniform_frac=1.0):
            cl = HttpBeaconClient()
            cl.run(cfg2, dry_run=True, beacon_id=2, user="u", computer="c", process="p")
            got = cl.get_sleep_time()
        acc.case(("cfg", st, jit), outcome=got)
        if abs(got - st * (1 - jit / 100)) > 1e-6:
            acc.fail("C19/sleep/config-defaults", {"kind": "sleep_cfg", "sleeptime": st, "jitter": jit}, st * (1 - jit / 100), got)
    acc.sample({"sleeptime": 60000, "jitter": 50, "uniform_answer": 1.0, "band": [30000.0, 60000]})


# ------------------------------------------------------------------------------------------------------------------
# H: dispatch
# ------------------------------------------------------------------------------------------------------------------


class StopLoop(BaseException):
    pass


REG_KINDS = ("decoA1", "decoA2", "methodC", "catchall-deco", "catchall-method", "empty-handler")
TASKS = ("none", "A", "B", "C", "6")
TASK_CMD = {"A": CMD_A, "B": CMD_B, "C": CMD_C, "6": CMD_6}


def make_task(c2, cmd, n):
    data = b"task-%d" % n
    return c2.TaskPacket(struct.pack(">IIII", 0x60000000 + n, len(data) + 8, cmd, len(data)) + data)


def build_client(mask, script, silent):
    from dissect.cobaltstrike import c2
    from dissect.cobaltstrike.client import HttpBeaconClient

    calls = []  # (task index, handler name)
    state = {"i": -1}
    regs = {k for i, k in enumerate(REG_KINDS) if mask >> i & 1}

    class Cl(HttpBeaconClient):
        def get_task(self):
            state["i"] += 1
            if state["i"] >= len(script):
                raise StopLoop()
            t = script[state["i"]]
            return None if t == "none" else make_task(c2, TASK_CMD[t], state["i"])

        def send_callback(self, callback_id, data):
            calls.append((state["i"], "CALLBACK"))

    if "methodC" in regs:
        Cl.on_pwd = lambda self, task: calls.append((state["i"], "methodC"))
    if "catchall-method" in regs:
        Cl.on_catch_all = lambda self, task: calls.append((state["i"], "catchall-method"))
    cl = Cl()
    if "decoA1" in regs:

        @cl.handle(c2.BeaconCommand.COMMAND_PS_LIST)
        def a1(task):
            calls.append((state["i"], "decoA1"))
            return (0, b"out")  # also exercises the callback path

        @cl.handle(CMD_6)
        def six(task):
            calls.append((state["i"], "deco6"))

    if "decoA2" in regs:

        @cl.handle(CMD_A)
        def a2(task):
            calls.append((state["i"], "decoA2"))

    if "catchall-deco" in regs:

        @cl.catch_all()
        def ca(task):
            calls.append((state["i"], "catchall-deco"))

    if "empty-handler" in regs:

        @cl.handle(None)
        def eh(task):
            calls.append((state["i"], "empty-handler"))

    return cl, calls, regs


def expected_for(task, regs):
    if task == "none":
        return None
    reg = []
    if task == "A":
        reg = [k for k in ("decoA1", "decoA2") if k in regs]
    elif task == "C":
        reg = ["methodC"] if "methodC" in regs else []
    elif task == "6":
        reg = ["deco6"] if "decoA1" in regs else []
    if reg:
        return sorted(reg + (["CALLBACK"] if "decoA1" in reg else []))
    return sorted(k for k in ("catchall-deco", "catchall-method") if k in regs)


def run_dispatch(mask, script, silent):
    """-> None or (signature, expected, observed)"""
    cfg = fresh_config()
    with Seams(uniform_frac=1.0) as sm:
        cl, calls, regs = build_client(mask, script, silent)
        r = call(cl.run, cfg, dry_run=True, beacon_id=2, user="u", computer="c", process="p", silent=silent, sleeptime=3000, jitter=20)
        if isinstance(r, str):
            return "C19/dispatch/setup", "dry run", r
        reg_len_before = {k: len(v) for k, v in cl.task_map.items()}
        try:
            cl._beacon_loop()
            return "C19/dispatch/loop-ended", "StopLoop", "returned"
        except StopLoop:
            pass
        except Exception as e:  # noqa
            return "C19/dispatch/loop-exception", "StopLoop", f"{type(e).__name__}: {e}"
        reg_len_after = {k: len(v) for k, v in cl.task_map.items()}
    # the loop pauses once per check-in, for an interval inside the jitter band (3000 ms, 20 %: 2.4 s .. 3.0 s)
    if len(sm.slept) != len(script) or any(not (2.4 - 1e-9 <= x <= 3.0 + 1e-9) for x in sm.slept):
        return "C19/sleep/loop-pause-outside-jitter-band", {"pauses": len(script), "band_seconds": [2.4, 3.0]}, {"pauses": [round(x, 6) for x in sm.slept]}
    for i, t in enumerate(script):
        got = sorted(name for (idx, name) in calls if idx == i)
        exp = expected_for(t, regs)
        if exp is None:
            allowed = {"empty-handler", "catchall-deco", "catchall-method"}
            if any(g not in allowed for g in got) or len(set(got)) != len(got):
                return "C19/dispatch/empty-checkin", f"each of {sorted(allowed)} at most once", {"task_index": i, "invoked": got}
            continue
        if got != exp:
            sig = "C19/dispatch/handler-multiset"
            if len(got) > len(exp) and set(got) == set(exp):
                sig = "C19/dispatch/handler-invoked-more-than-once"
            return sig, {"task_index": i, "task": t, "handlers": exp}, {"task_index": i, "invoked": got}
    if reg_len_after != reg_len_before:
        return "C19/dispatch/registry-grew", reg_len_before, reg_len_after
    return None


def chunk_dispatch(chunk, acc):
    depth = BOUNDS[acc.tier]["hist_depth"]
    mask = chunk["mask"]
    for script in sequences(TASKS, depth, 1):
        acc.states += 1
        for silent in (True, False):
            acc.transitions += len(script)
            bad = run_dispatch(mask, script, silent)
            acc.case((script, silent), nontrivial=any(t != "none" for t in script), outcome=bad[0] if bad else tuple(script))
            if bad:
                acc.fail(bad[0], {"kind": "dispatch", "registrations": [k for i, k in enumerate(REG_KINDS) if mask >> i & 1], "mask": mask, "tasks": list(script), "silent": silent}, bad[1], bad[2])
    acc.sample({"registrations": [k for i, k in enumerate(REG_KINDS) if mask >> i & 1], "tasks": ["A", "none", "C", "A"], "oracle": "per task: invoked handlers == registered set (catch-alls iff empty), each once"})


def chunk_get_handlers(chunk, acc):
    cfg = fresh_config()
    for mask in range(64):
        with Seams():
            cl, calls, regs = build_client(mask, (), True)
            cl.run(cfg, dry_run=True, beacon_id=2, user="u", computer="c", process="p")
            for cmd in (CMD_A, CMD_B, CMD_C, CMD_6, None):
                acc.states += 1
                acc.transitions += 3
                before = {k: list(v) for k, v in cl.task_map.items()}
                r = [call(cl.get_handlers, cmd) for _ in range(3)]
                after = {k: list(v) for k, v in cl.task_map.items()}
                acc.case((mask, cmd), outcome=len(r[0]) if isinstance(r[0], list) else r[0])
                if any(isinstance(x, str) for x in r):
                    acc.fail("C19/get_handlers/exception", {"kind": "get_handlers", "mask": mask, "command": cmd}, "list", str(r)[:200])
                elif not (len(r[0]) == len(r[1]) == len(r[2])) or [getattr(h, "__name__", "") for h in r[0]] != [getattr(h, "__name__", "") for h in r[2]]:
                    acc.fail("C19/get_handlers/not-idempotent", {"kind": "get_handlers", "mask": mask, "command": cmd}, len(r[0]), [len(x) for x in r])
                elif {k: len(v) for k, v in before.items()} != {k: len(v) for k, v in after.items()}:
                    acc.fail("C19/get_handlers/registry-changed", {"kind": "get_handlers", "mask": mask, "command": cmd}, {str(k): len(v) for k, v in before.items()}, {str(k): len(v) for k, v in after.items()})
    acc.sample({"get_handlers": "called three times per command for all 64 registration subsets"})


def unambiguous_commands(c2):
    """(value, name) of every BeaconCommand value that has exactly one name (aliases make on_<name> ambiguous)."""
    by = {}
    for name, member in c2.BeaconCommand.__members__.items():
        by.setdefault(int(member), []).append(name)
    return sorted((v, names[0]) for v, names in by.items() if len(names) == 1)


def run_methods(with_methods, order):
    """A client class that defines an on_<command> method for EVERY command (or none) plus a catch-all; one task per
    command. -> None or (signature, expected, observed)"""
    from dissect.cobaltstrike import c2
    from dissect.cobaltstrike.client import HttpBeaconClient

    cmds = unambiguous_commands(c2)
    if order == "reversed":
        cmds = cmds[::-1]
    calls = []
    state = {"i": -1}

    class Cl(HttpBeaconClient):
        def get_task(self):
            state["i"] += 1
            if state["i"] >= len(cmds):
                raise StopLoop()
            return make_task(c2, cmds[state["i"]][0], state["i"])

        def send_callback(self, callback_id, data):
            calls.append((state["i"], "CALLBACK"))

        def on_catch_all(self, task):
            calls.append((state["i"], "catchall"))

    if with_methods:
        for v, name in cmds:
            short = name[len("COMMAND_"):].lower() if name.startswith("COMMAND_") else name.lower()

            def mk(short):
                return lambda self, task: calls.append((state["i"], "on_" + short))

            setattr(Cl, "on_" + short, mk(short))
    cfg = fresh_config()
    with Seams():
        cl = Cl()
        r = call(cl.run, cfg, dry_run=True, beacon_id=2, user="u", computer="c", process="p", silent=True, sleeptime=1000, jitter=0)
        if isinstance(r, str):
            return "C19/dispatch/setup", "dry run", r
        try:
            cl._beacon_loop()
            return "C19/dispatch/loop-ended", "StopLoop", "returned"
        except StopLoop:
            pass
        except Exception as e:  # noqa
            return "C19/dispatch/loop-exception", "StopLoop", f"{type(e).__name__}: {e}"
    for i, (v, name) in enumerate(cmds):
        short = name[len("COMMAND_"):].lower() if name.startswith("COMMAND_") else name.lower()
        exp = ["on_" + short] if with_methods else ["catchall"]
        got = sorted(n for (idx, n) in calls if idx == i)
        if got != exp:
            return "C19/dispatch/method-handler", {"command": name, "value": v, "handlers": exp}, {"invoked": got}
    return None


def chunk_methods(chunk, acc):
    from dissect.cobaltstrike import c2

    n = len(unambiguous_commands(c2))
    for with_methods in (True, False):
        for order in ("ascending", "reversed"):
            acc.states += 1
            acc.transitions += n
            bad = run_methods(with_methods, order)
            acc.case(("methods", with_methods, order), nontrivial=True, outcome=bad[0] if bad else n)
            if bad:
                acc.fail(bad[0], {"kind": "methods", "with_methods": with_methods, "order": order}, bad[1], bad[2])
    acc.sample({"commands": n, "client": "on_<command> method for every command with an unambiguous name + on_catch_all", "oracle": "each task reaches exactly its own method once (the catch-all only when there is no method)"})


def run_raising(which, script, silent):
    """Handlers h0..h3 for command A and catch-alls c0..c2; the ones named in `which` raise (or return something that
    cannot be sent). Every handler registered for a task's command is still invoked exactly once."""
    from dissect.cobaltstrike import c2
    from dissect.cobaltstrike.client import HttpBeaconClient

    calls = []
    state = {"i": -1}

    class Cl(HttpBeaconClient):
        def get_task(self):
            state["i"] += 1
            if state["i"] >= len(script):
                raise StopLoop()
            t = script[state["i"]]
            return None if t == "none" else make_task(c2, TASK_CMD[t], state["i"])

        def send_callback(self, callback_id, data):
            calls.append((state["i"], "CALLBACK"))

    cl = Cl()

    def mk(name):
        def h(task):
            calls.append((state["i"], name))
            if name in which:
                if which[name] == "raise":
                    raise RuntimeError("handler failed")
                return which[name]  # a return value that send_callback(*response) cannot take
            return None

        return h

    for i in range(4):
        cl.handle(CMD_A)(mk(f"h{i}"))
    for i in range(3):
        cl.catch_all()(mk(f"c{i}"))
    cfg = fresh_config()
    with Seams():
        r = call(cl.run, cfg, dry_run=True, beacon_id=2, user="u", computer="c", process="p", silent=silent, sleeptime=1000, jitter=0)
        if isinstance(r, str):
            return "C19/dispatch/setup", "dry run", r
        try:
            cl._beacon_loop()
            return "C19/dispatch/loop-ended", "StopLoop", "returned"
        except StopLoop:
            pass
        except Exception as e:  # noqa
            return "C19/dispatch/loop-exception", "StopLoop", f"{type(e).__name__}: {e}"
    for i, t in enumerate(script):
        got = sorted(n for (idx, n) in calls if idx == i and n != "CALLBACK")
        exp = {"A": ["h0", "h1", "h2", "h3"], "B": ["c0", "c1", "c2"], "none": None}[t]
        if exp is None:
            continue
        if got != exp:
            return "C19/dispatch/handler-skipped-after-a-failing-handler", {"task_index": i, "task": t, "handlers": exp}, {"task_index": i, "invoked": got}
    return None


def chunk_raising(chunk, acc):
    bad_returns = ("raise", 5, (1,), ("x", "y", "z"))
    for name in ("h0", "h1", "h2", "h3", "c0", "c1", "c2"):
        for how in bad_returns:
            for script in (("A", "B"), ("B", "A", "A"), ("A", "none", "B")):
                acc.states += 1
                acc.transitions += len(script)
                bad = run_raising({name: how}, script, True)
                acc.case(("raising", name, str(how), script), nontrivial=True, outcome=bad[0] if bad else "ok")
                if bad:
                    acc.fail(bad[0], {"kind": "raising", "handler": name, "how": str(how), "tasks": list(script)}, bad[1], bad[2])
    acc.sample({"handlers": "4 for command A, 3 catch-alls", "failing": "each one in turn: raises / returns a value that cannot be sent as a callback", "oracle": "every other handler of the task still runs exactly once"})


LATE_ITEMS = (("task", "A"), ("task", "B"), ("reg", "catchall"), ("reg", "A"), ("reg", "B"))


def run_late(script):
    """Registrations happen between tasks (a handler, a catch-all handler registered while the beacon is running):
    each task goes to exactly the handlers registered for its command *at that moment* (else the catch-alls)."""
    from dissect.cobaltstrike import c2
    from dissect.cobaltstrike.client import HttpBeaconClient

    calls = []
    state = {"i": -1, "n": 0}
    registered = {"A": [], "B": [], "catchall": []}
    expected = {}

    class Cl(HttpBeaconClient):
        def get_task(self):
            while True:
                state["i"] += 1
                if state["i"] >= len(script):
                    raise StopLoop()
                what, arg = script[state["i"]]
                if what == "reg":
                    state["n"] += 1
                    name = f"{arg}#{state['n']}"

                    def h(task, name=name):
                        calls.append((state["i"], name))

                    if arg == "catchall":
                        self.catch_all()(h)
                    else:
                        self.handle(TASK_CMD[arg])(h)
                    registered[arg].append(name)
                    continue
                expected[state["i"]] = sorted(registered[arg] or registered["catchall"])
                return make_task(c2, TASK_CMD[arg], state["i"])

        def send_callback(self, callback_id, data):
            pass

    cfg = fresh_config()
    with Seams():
        cl = Cl()
        r = call(cl.run, cfg, dry_run=True, beacon_id=2, user="u", computer="c", process="p", silent=True, sleeptime=1000, jitter=0)
        if isinstance(r, str):
            return "C19/dispatch/setup", "dry run", r
        try:
            cl._beacon_loop()
            return "C19/dispatch/loop-ended", "StopLoop", "returned"
        except StopLoop:
            pass
        except Exception as e:  # noqa
            return "C19/dispatch/loop-exception", "StopLoop", f"{type(e).__name__}: {e}"
    for i, exp in expected.items():
        got = sorted(n for (idx, n) in calls if idx == i)
        if got != exp:
            return "C19/dispatch/handler-registered-while-running", {"step": i, "task": script[i][1], "handlers": exp}, {"step": i, "invoked": got}
    return None


def chunk_late(chunk, acc):
    depth = 5 if acc.tier == "quick" else 6
    first = LATE_ITEMS[chunk["first"]]
    for rest in sequences(LATE_ITEMS, depth - 1):
        script = (first,) + rest
        if not any(w == "task" for w, _ in script):
            continue
        acc.states += 1
        acc.transitions += len(script)
        bad = run_late(script)
        acc.case(("late", script), nontrivial=True, outcome=bad[0] if bad else len(script))
        if bad:
            acc.fail(bad[0], {"kind": "late", "script": [list(x) for x in script]}, bad[1], bad[2])
    acc.sample({"items": [list(x) for x in LATE_ITEMS], "depth": depth, "oracle": "handlers registered at the moment the task arrives"})


def run_chunk(chunk, acc):
    globals()["chunk_" + chunk["kind"]](chunk, acc)


def replay(case):
    from vmc.runner import Acc

    a = Acc("replay", "quick", 0)
    if case["kind"] == "late":
        bad = run_late(tuple(tuple(x) for x in case["script"]))
        return {"ok": bad is None, "expected": bad[1] if bad else None, "observed": bad[2] if bad else None}
    if case["kind"] == "raising":
        how = case["how"]
        how = {"raise": "raise", "5": 5, "(1,)": (1,), "('x', 'y', 'z')": ("x", "y", "z")}[how]
        bad = run_raising({case["handler"]: how}, tuple(case["tasks"]), True)
        return {"ok": bad is None, "expected": bad[1] if bad else None, "observed": bad[2] if bad else None}
    if case["kind"] == "methods":
        bad = run_methods(case["with_methods"], case["order"])
        return {"ok": bad is None, "expected": bad[1] if bad else None, "observed": bad[2] if bad else None}
    if case["kind"] == "dispatch":
        bad = run_dispatch(case["mask"], tuple(case["tasks"]), case["silent"])
        return {"ok": bad is None, "expected": bad[1] if bad else None, "observed": bad[2] if bad else None}
    fam = {"id": chunk_ids, "id_none": chunk_ids, "names": chunk_names, "sleep": chunk_sleep, "sleep_cfg": chunk_sleep, "get_handlers": chunk_get_handlers}[case["kind"]]
    fam({}, a)
    v = a.violations[0] if a.violations else None
    return {"ok": v is None, "expected": v["expected"] if v else None, "observed": v["observed"] if v else None}
