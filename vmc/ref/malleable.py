"""Reference Malleable-C2 data-transform encoder and decoder on an abstract HTTP message (the "peer").

Independent of the library: own base64 / base64url / NetBIOS / mask codecs. A program is a list of (OP, arg):
    ("BUILD", kind)            kind in {"metadata", "id", "output"} starts a data block
    encoders                   BASE64, BASE64URL, NETBIOS, NETBIOSU, MASK, ("PREPEND", bytes|int), ("APPEND", bytes|int)
    terminations               PRINT, URI_APPEND, ("HEADER", name), ("PARAMETER", name)
    static decorations         ("_HEADER", b"K: V"), ("_PARAMETER", b"k=v"), ("_HOSTHEADER", b"Host: h")
"""

from __future__ import annotations

B64 = b"ABCDEFGHIJKLMNOPQRSTUVWXYZabcdefghijklmnopqrstuvwxyz0123456789+/"
B64URL = b"ABCDEFGHIJKLMNOPQRSTUVWXYZabcdefghijklmnopqrstuvwxyz0123456789-_"


def b64_encode(data: bytes, alphabet=B64, pad=True) -> bytes:
    out = bytearray()
    for i in range(0, len(data), 3):
        chunk = data[i : i + 3]
        n = int.from_bytes(chunk.ljust(3, b"\x00"), "big")
        chars = [alphabet[(n >> s) & 63] for s in (18, 12, 6, 0)]
        keep = len(chunk) + 1
        out += bytes(chars[:keep])
        if pad:
            out += b"=" * (4 - keep)
    return bytes(out)


def b64_decode(data: bytes, alphabet=B64) -> bytes:
    data = data.rstrip(b"=")
    idx = {c: i for i, c in enumerate(alphabet)}
    out = bytearray()
    for i in range(0, len(data), 4):
        chunk = data[i : i + 4]
        if len(chunk) == 1:
            raise ValueError("truncated base64")
        n = 0
        for c in chunk:
            n = (n << 6) | idx[c]
        n <<= 6 * (4 - len(chunk))
        out += n.to_bytes(3, "big")[: len(chunk) - 1]
    return bytes(out)


def nb_encode(data: bytes, base: int) -> bytes:
    return bytes(x for c in data for x in (base + (c >> 4), base + (c & 15)))


def nb_decode(data: bytes, base: int) -> bytes:
    if len(data) % 2:
        raise ValueError("odd netbios length")
    return bytes((((data[i] - base) & 15) << 4) | ((data[i + 1] - base) & 15) for i in range(0, len(data), 2))


def mask_encode(data: bytes, key: bytes) -> bytes:
    return key + bytes(c ^ key[i % 4] for i, c in enumerate(data))


def mask_decode(data: bytes) -> bytes:
    key, body = data[:4], data[4:]
    return bytes(c ^ key[i % 4] for i, c in enumerate(body))


ENCODERS = ("BASE64", "BASE64URL", "NETBIOS", "NETBIOSU", "MASK", "PREPEND", "APPEND")
TERMINATIONS = ("PRINT", "URI_APPEND", "HEADER", "PARAMETER")
STATICS = ("_HEADER", "_PARAMETER", "_HOSTHEADER")


def _fill(arg, filler):
    return arg if isinstance(arg, (bytes, bytearray)) else bytes([filler]) * arg


def encode_steps(steps, data: bytes, masks=None, b64url_pad=True, filler=0x59) -> bytes:
    """Apply encoder steps in transform order. `masks` is an iterator of 4-byte keys (one per MASK step)."""
    for op, arg in steps:
        if op == "APPEND":
            data = data + _fill(arg, filler)
        elif op == "PREPEND":
            data = _fill(arg, filler) + data
        elif op == "BASE64":
            data = b64_encode(data)
        elif op == "BASE64URL":
            data = b64_encode(data, B64URL, pad=b64url_pad)
        elif op == "NETBIOS":
            data = nb_encode(data, 0x61)
        elif op == "NETBIOSU":
            data = nb_encode(data, 0x41)
        elif op == "MASK":
            data = mask_encode(data, next(masks))
        else:
            raise ValueError(op)
    return data


def decode_steps(steps, data: bytes) -> bytes:
    """Undo encoder steps (given in transform order)."""
    for op, arg in reversed(list(steps)):
        n = len(arg) if isinstance(arg, (bytes, bytearray)) else arg
        if op == "APPEND":
            data = data[: len(data) - n]
        elif op == "PREPEND":
            data = data[n:]
        elif op == "BASE64":
            data = b64_decode(data)
        elif op == "BASE64URL":
            data = b64_decode(data, B64URL)
        elif op == "NETBIOS":
            data = nb_decode(data, 0x61)
        elif op == "NETBIOSU":
            data = nb_decode(data, 0x41)
        elif op == "MASK":
            data = mask_decode(data)
        else:
            raise ValueError(op)
    return data


def split_blocks(program):
    """-> (statics, blocks); blocks = [{"kind", "steps", "term"}]"""
    statics, blocks, cur = [], [], None
    for op, arg in program:
        if op == "BUILD":
            cur = {"kind": arg, "steps": [], "term": None}
            blocks.append(cur)
        elif op in TERMINATIONS:
            cur["term"] = (op, arg)
        elif op in STATICS:
            statics.append((op, arg))
        else:
            cur["steps"].append((op, arg))
    return statics, blocks


def empty_message(uri=b"", params=None, headers=None, body=b""):
    return {"uri": uri, "params": dict(params or {}), "headers": dict(headers or {}), "body": body}


def encode_message(program, c2data: dict, initial=None, masks=None, b64url_pad=True):
    """Reference beacon: place every data block of `program` into a copy of `initial`."""
    msg = empty_message(**(initial or {}))
    statics, blocks = split_blocks(program)
    for op, arg in statics:
        if op in ("_HEADER", "_HOSTHEADER"):
            k, _, v = arg.partition(b": ")
            msg["headers"][k] = v
        else:
            k, _, v = arg.partition(b"=")
            msg["params"][k] = v
    for b in blocks:
        data = encode_steps(b["steps"], c2data.get(b["kind"]) or b"", masks=masks, b64url_pad=b64url_pad)
        op, arg = b["term"]
        if op == "PRINT":
            msg["body"] = data
        elif op == "HEADER":
            msg["headers"][arg] = data
        elif op == "PARAMETER":
            msg["params"][arg] = data
        elif op == "URI_APPEND":
            msg["uri"] = msg["uri"] + data
    return msg


def decode_message(program, msg, base_uri=b""):
    """Reference team server: recover every data block from a message."""
    out = {}
    _, blocks = split_blocks(program)
    for b in blocks:
        op, arg = b["term"]
        if op == "PRINT":
            d = msg["body"]
        elif op == "HEADER":
            d = msg["headers"][arg]
        elif op == "PARAMETER":
            d = msg["params"][arg]
        else:
            assert msg["uri"].startswith(base_uri)
            d = msg["uri"][len(base_uri) :]
        out[b["kind"]] = decode_steps(b["steps"], d)
    return out


def server_steps_from_recover(recover_steps):
    """The recover program lists the beacon's undo steps (print first); the server applied them in reverse."""
    steps = [s for s in recover_steps if s[0] != "PRINT"]
    return list(reversed(steps))


def selftest():
    import base64

    vecs = [b"", b"f", b"fo", b"foo", b"foob", b"fooba", b"foobar", bytes(range(256))]
    rfc = [b"", b"Zg==", b"Zm8=", b"Zm9v", b"Zm9vYg==", b"Zm9vYmE=", b"Zm9vYmFy"]  # RFC 4648 section 10
    for v, e in zip(vecs, rfc):
        assert b64_encode(v) == e and b64_decode(e) == v
    for v in vecs:
        assert b64_encode(v, B64URL) == base64.urlsafe_b64encode(v)
        assert b64_decode(b64_encode(v, B64URL, pad=False), B64URL) == v
    assert nb_encode(b"\xa5", 0x41) == b"KF" and nb_decode(b"kf", 0x61) == b"\xa5"  # NetBIOS first-level encoding (RFC 1001)
    assert mask_decode(mask_encode(b"hello", b"\x01\x02\x03\x04")) == b"hello"
    prog = [("_HEADER", b"Accept: */*"), ("BUILD", "metadata"), ("MASK", None), ("BASE64URL", None), ("PREPEND", b"s="), ("HEADER", b"Cookie"), ("BUILD", "output"), ("NETBIOS", None), ("PRINT", None)]
    msg = encode_message(prog, {"metadata": b"\x00\x01meta", "output": b"out"}, masks=iter([b"\xde\xad\xbe\xef"]))
    assert msg["headers"][b"Accept"] == b"*/*" and msg["headers"][b"Cookie"].startswith(b"s=")
    assert decode_message(prog, msg) == {"metadata": b"\x00\x01meta", "output": b"out"}
