"""Reference encoders for Cobalt Strike's structured settings, and the decoded value each must give.

Independent of the library: opcode numbers and layouts are written from the Cobalt Strike formats.
"""

from __future__ import annotations

import struct

OPS = dict(
    APPEND=1, PREPEND=2, BASE64=3, PRINT=4, PARAMETER=5, HEADER=6, BUILD=7, NETBIOS=8, _PARAMETER=9, _HEADER=10,
    NETBIOSU=11, URI_APPEND=12, BASE64URL=13, STRREP=14, MASK=15, _HOSTHEADER=16,
)
FLAG_OPS = ("BASE64", "BASE64URL", "NETBIOS", "NETBIOSU", "MASK", "PRINT", "URI_APPEND")
ARG_OPS = ("APPEND", "PREPEND", "PARAMETER", "HEADER", "_PARAMETER", "_HEADER", "_HOSTHEADER")
ENCODERS = ("BASE64", "BASE64URL", "NETBIOS", "NETBIOSU", "MASK", "APPEND", "PREPEND")
TERMINATIONS = ("PRINT", "URI_APPEND", "HEADER", "PARAMETER")


def u32(n):
    return struct.pack(">I", n)


def transform_program(steps, terminate=True, pad=0) -> bytes:
    """steps: list of (OP, arg); arg = int for BUILD, bytes for argument ops, None for flag ops."""
    out = b""
    for op, arg in steps:
        out += u32(OPS[op])
        if op == "BUILD":
            out += u32(arg)
        elif op in ARG_OPS:
            out += u32(len(arg)) + arg
    if terminate:
        out += u32(0)
    return out + b"\x00" * pad


def transform_expected(steps, build0="metadata"):
    """The decoded value: the same steps, in order, nothing else."""
    exp = []
    for op, arg in steps:
        if op == "BUILD":
            exp.append((op, {0: build0, 1: "output"}[arg]))
        elif op in ARG_OPS:
            exp.append((op, arg))
        else:
            exp.append((op, True))
    return exp


def recover_program(steps, terminate=True, pad=0) -> bytes:
    """steps: list of (OP, length-or-None) for the server output (.http-get.server.output) recover program."""
    out = b""
    for op, arg in steps:
        out += u32(OPS[op])
        if op in ("APPEND", "PREPEND"):
            out += u32(arg)
    if terminate:
        out += u32(0)
    return out + b"\x00" * pad


def recover_expected(steps):
    return [(op.lower(), arg if op in ("APPEND", "PREPEND") else True) for op, arg in steps]


EXECUTORS = {
    "CreateThread": 1, "SetThreadContext": 2, "CreateRemoteThread": 3, "RtlCreateUserThread": 4,
    "NtQueueApcThread": 5, "CreateThread_": 6, "CreateRemoteThread_": 7, "NtQueueApcThread-s": 8,
}


def execute_list(items, terminate=True) -> bytes:
    """items: list of name or (name_, offset, module, function) for the two 'special' forms."""
    out = b""
    for it in items:
        if isinstance(it, tuple):
            name, off, mod, fn = it
            out += bytes([EXECUTORS[name]]) + struct.pack(">H", off)
            m = mod + b"\x00"
            f = fn + b"\x00"
            out += u32(len(m)) + m + u32(len(f)) + f
        else:
            out += bytes([EXECUTORS[it]])
    if terminate:
        out += b"\x00"
    return out


def execute_expected(items):
    exp = []
    for it in items:
        if isinstance(it, tuple):
            name, off, mod, fn = it
            s = f"{mod.decode()}!{fn.decode()}"
            if off:
                s += "+0x%x" % off
            exp.append(f'{name.rstrip("_")} "{s}"')
        else:
            exp.append(it)
    return exp


def norm_exec_name(s: str) -> str:
    """`NtQueueApcThread-s` and `NtQueueApcThread_s` spell the same step."""
    return s.replace("NtQueueApcThread_s", "NtQueueApcThread-s")


def procinj_transform(append: bytes, prepend: bytes) -> bytes:
    # on-disk order: first length-prefixed blob is `append`, second is `prepend`
    return u32(len(append)) + append + u32(len(prepend)) + prepend


def gargle(pairs, terminate=True) -> bytes:
    out = b"".join(struct.pack("<II", a, b) for a, b in pairs)
    return out + (struct.pack("<II", 0, 0) if terminate else b"")


def gargle_expected(pairs):
    return ["0x%x-0x%x" % (a, b) for a, b in pairs if (a, b) != (0, 0)]


def pivot_frame(frame: bytes, pad_to=None) -> bytes:
    out = struct.pack(">H", len(frame) + 4) + frame
    if pad_to:
        out = out.ljust(pad_to, b"\x00")
    return out


BEACON_GATE_APIS = [
    "InternetOpenA", "InternetConnectA", "VirtualAlloc", "VirtualAllocEx", "VirtualProtect", "VirtualProtectEx",
    "VirtualFree", "GetThreadContext", "SetThreadContext", "ResumeThread", "CreateThread", "CreateRemoteThread",
    "OpenProcess", "OpenThread", "CloseHandle", "CreateFileMappingA", "MapViewOfFile", "UnmapViewOfFile",
    "VirtualQuery", "DuplicateHandle", "ReadProcessMemory", "WriteProcessMemory", "ExitThread",
]
BG_COMMS = frozenset(BEACON_GATE_APIS[0:2])
BG_CORE = frozenset(BEACON_GATE_APIS[2:22])
BG_CLEANUP = frozenset(BEACON_GATE_APIS[22:23])
BG_GROUPS = {"Comms": BG_COMMS, "Core": BG_CORE, "Cleanup": BG_CLEANUP, "All": BG_COMMS | BG_CORE | BG_CLEANUP}


def beacon_gate(enabled, on=1) -> bytes:
    """enabled: set of API names -> 23 flag bytes"""
    return bytes((on if n in enabled else 0) for n in BEACON_GATE_APIS)


def beacon_gate_expand(names) -> frozenset:
    """Expand a decoded list (groups + single APIs) back to the set of APIs it denotes."""
    out = set()
    for n in names:
        if n in BG_GROUPS:
            out |= BG_GROUPS[n]
        elif n != "None":
            out.add(n)
    return frozenset(out)


def beacon_gate_expected(enabled):
    """(ordered group prefix, remainder set) per the documented grouping All / Comms / Core / Cleanup."""
    e = set(enabled)
    groups = []
    if e >= BG_GROUPS["All"]:
        groups.append("All")
        e -= BG_GROUPS["All"]
    if e >= BG_COMMS:
        groups.append("Comms")
        e -= BG_COMMS
    if e >= BG_CORE:
        groups.append("Core")
        e -= BG_CORE
    if e >= BG_CLEANUP:
        groups.append("Cleanup")
        e -= BG_CLEANUP
    return groups, frozenset(e)


def selftest():
    p = transform_program([("BUILD", 0), ("BASE64", None), ("PREPEND", b"ab"), ("HEADER", b"Cookie")])
    assert p == bytes.fromhex("00000007" "00000000" "00000003" "00000002" "00000002" "6162" "00000006" "00000006") + b"Cookie" + b"\x00" * 4
    assert recover_program([("PRINT", None), ("APPEND", 5), ("MASK", None)]) == bytes.fromhex("00000004" "00000001" "00000005" "0000000f" "00000000")
    assert len(BEACON_GATE_APIS) == 23 and len(BG_CORE) == 20
    assert beacon_gate_expected(set(BEACON_GATE_APIS)) == (["All"], frozenset())
    assert beacon_gate_expected({"InternetOpenA", "InternetConnectA", "ExitThread", "VirtualAlloc"}) == (["Comms", "Cleanup"], frozenset({"VirtualAlloc"}))
    assert execute_list(["CreateThread", ("CreateThread_", 0x10, b"ntdll.dll", b"RtlUserThreadStart")])[:1] == b"\x01"
