"""Reference beacon-configuration builder (HTTP/HTTPS/DNS/SMB), on top of ref/tlv + ref/programs + ref/keys."""

from __future__ import annotations

import struct

from vmc.ref import keys as K
from vmc.ref import programs as P
from vmc.ref import tlv

DEFAULT_GET = [("_HEADER", b"Accept: */*"), ("BUILD", 0), ("BASE64", None), ("HEADER", b"Cookie")]
DEFAULT_POST = [("_HEADER", b"Content-Type: application/octet-stream"), ("BUILD", 0), ("PARAMETER", b"id"), ("BUILD", 1), ("PRINT", None)]
DEFAULT_RECOVER = [("PRINT", None)]


def http_settings(
    get=None, post=None, recover=None, protocol=0, port=80, sleeptime=60000, jitter=10, domains=b"c2.example.com,/ptj,c3.example.com,/load",
    useragent=b"Mozilla/5.0 (compatible)", submit_uri=b"/submit.php", verb_get=b"GET", verb_post=b"POST", host_header=b"", scheme=0,
    key_bits=1024, key_which=0, watermark=305419896, extra=(),
):
    """-> ordered list of (index, type, value) as a stageless HTTP beacon carries them"""
    der = K.der(key_bits, key_which)
    s = [
        (1, tlv.T_SHORT, struct.pack(">H", protocol)),
        (2, tlv.T_SHORT, struct.pack(">H", port)),
        (3, tlv.T_INT, struct.pack(">I", sleeptime)),
        (4, tlv.T_INT, struct.pack(">I", 1048576)),
        (5, tlv.T_SHORT, struct.pack(">H", jitter)),
        (7, tlv.T_PTR, der.ljust(256, b"\x00")),
        (8, tlv.T_PTR, domains.ljust(256, b"\x00")),
        (9, tlv.T_PTR, useragent.ljust(128, b"\x00")),
        (10, tlv.T_PTR, submit_uri.ljust(64, b"\x00")),
        (11, tlv.T_PTR, P.recover_program(recover if recover is not None else DEFAULT_RECOVER).ljust(256, b"\x00")),
        (12, tlv.T_PTR, P.transform_program(get if get is not None else DEFAULT_GET).ljust(512, b"\x00")),
        (13, tlv.T_PTR, P.transform_program(post if post is not None else DEFAULT_POST).ljust(512, b"\x00")),
        (26, tlv.T_PTR, verb_get.ljust(16, b"\x00")),
        (27, tlv.T_PTR, verb_post.ljust(16, b"\x00")),
        (31, tlv.T_SHORT, struct.pack(">H", scheme)),
        (37, tlv.T_INT, struct.pack(">I", watermark)),
        (54, tlv.T_PTR, host_header.ljust(128, b"\x00")),
    ]
    return s + list(extra)


def block(settings, pad=None) -> bytes:
    b = tlv.encode(settings)
    return b.ljust(pad, b"\x00") if pad else b


def http_block(**kw) -> bytes:
    pad = kw.pop("pad", None)
    return block(http_settings(**kw), pad)


def minimal_block() -> bytes:
    return tlv.encode([(1, tlv.T_SHORT, b"\x00\x00")])


def obfuscate(blk: bytes, key: int) -> bytes:
    return bytes(b ^ key for b in blk)


def selftest():
    b = http_block()
    recs = tlv.decode(b)
    assert [r[0] for r in recs] == [1, 2, 3, 4, 5, 7, 8, 9, 10, 11, 12, 13, 26, 27, 31, 37, 54]
    assert len(http_block(pad=4096)) == 4096
