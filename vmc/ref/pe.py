"""Minimal PE32 / PE32+ image builder (reference for C01, C08, C09, C18). Independent of the library."""

from __future__ import annotations

import struct

X86STUB = bytes.fromhex("e8000000005b")
X64STUB = bytes.fromhex("554889e54881")
M_I386, M_AMD64 = 0x014C, 0x8664


def build_pe(
    arch="x86",
    compile_stamp=0x5FA0B201,
    export_stamp=0x5FA0B264,
    e_lfanew=0x80,
    magic_mz=b"MZRE",
    magic_pe=b"PE\x00\x00",
    data=b"",
    with_export=True,
    append=b"",
    nsections=None,
    machine=None,
    export_at=0x10,
) -> bytes:
    """Layout: headers | .text (0x200 @rva 0x1000) | .rdata (0x200 @rva 0x2000, export dir at +export_at: 0 = first byte of the section, 0x1d8 = ending with it) | .data | append."""
    x64 = arch == "x64"
    dos = bytearray(64)
    dos[0 : len(magic_mz)] = magic_mz
    stub = X64STUB if x64 else X86STUB
    dos[len(magic_mz) : len(magic_mz) + len(stub)] = stub
    struct.pack_into("<i", dos, 0x3C, e_lfanew)
    hdr = bytearray(dos) + b"\x00" * (e_lfanew - 64)
    opt_size = 240 if x64 else 224
    nsec = 3
    need = e_lfanew + 4 + 20 + opt_size + nsec * 40
    size_of_headers = max(0x400, (need + 0x1FF) // 0x200 * 0x200)
    t_off = size_of_headers
    r_off = t_off + 0x200
    d_off = r_off + 0x200
    dlen = (len(data) + 0x1FF) // 0x200 * 0x200
    mach = machine if machine is not None else (M_AMD64 if x64 else M_I386)
    file_hdr = struct.pack("<HHIIIHH", mach, nsec if nsections is None else nsections, compile_stamp, 0, 0, opt_size, 0x2102)
    dd = [(0, 0)] * 16
    if with_export:
        dd[0] = (0x2000 + export_at, 0x28)
    ddb = b"".join(struct.pack("<II", *d) for d in dd)
    if x64:
        opt = struct.pack(
            "<HBBIIIIIQIIHHHHHHIIIIHHQQQQII",
            0x20B, 14, 0, 0x200, 0x400, 0, 0x1000, 0x1000, 0x180000000, 0x1000, 0x200, 6, 0, 0, 0, 6, 0, 0,
            0x4000 + dlen, size_of_headers, 0, 2, 0, 0x100000, 0x1000, 0x100000, 0x1000, 0, 16,
        )
    else:
        opt = struct.pack(
            "<HBBIIIIIIIIIHHHHHHIIIIHHIIIIII",
            0x10B, 14, 0, 0x200, 0x400, 0, 0x1000, 0x1000, 0x2000, 0x10000000, 0x1000, 0x200, 6, 0, 0, 0, 6, 0, 0,
            0x4000 + dlen, size_of_headers, 0, 2, 0, 0x100000, 0x1000, 0x100000, 0x1000, 0, 16,
        )
    opt += ddb
    assert len(opt) == opt_size

    def sec(name, vsize, va, rsize, rptr):
        return struct.pack("<8sIIIIIIHHI", name, vsize, va, rsize, rptr, 0, 0, 0, 0, 0x60000020)

    secs = sec(b".text", 0x200, 0x1000, 0x200, t_off) + sec(b".rdata", 0x200, 0x2000, 0x200, r_off) + sec(b".data", max(dlen, 1), 0x3000, dlen, d_off)
    hdr += magic_pe.ljust(4, b"\x00") + file_hdr + opt + secs
    hdr = hdr.ljust(size_of_headers, b"\x00")
    text = b"\xcc" * 0x200
    rdata = bytearray(0x200)
    struct.pack_into("<IIHHIIIIIII", rdata, export_at, 0, export_stamp, 0, 0, 0x2040, 1, 1, 1, 0x2050, 0x2054, 0x2058)
    return bytes(hdr) + text + bytes(rdata) + data.ljust(dlen, b"\x00") + append


def layout(arch="x86", e_lfanew=0x80, data_len=0):
    """Offsets of the structurally relevant fields of build_pe's output (used as deviation points by C08)."""
    opt_size = 240 if arch == "x64" else 224
    need = e_lfanew + 4 + 20 + opt_size + 3 * 40
    soh = max(0x400, (need + 0x1FF) // 0x200 * 0x200)
    fh = e_lfanew + 4
    opt = fh + 20
    dd0 = opt + opt_size - 128
    sec0 = opt + opt_size
    return {
        "e_lfanew": (0x3C, 4),
        "pe_magic": (e_lfanew, 4),
        "machine": (fh, 2),
        "nsections": (fh + 2, 2),
        "timestamp": (fh + 4, 4),
        "opt_size": (fh + 16, 2),
        "size_of_headers": (opt + 60, 4),
        "num_rva_and_sizes": (dd0 - 4, 4),
        "opt_magic": (opt, 2),
        "export_rva": (dd0, 4),
        "export_size": (dd0 + 4, 4),
        "sec0_vsize": (sec0 + 8, 4),
        "sec0_va": (sec0 + 12, 4),
        "sec1_vsize": (sec0 + 40 + 8, 4),
        "sec1_va": (sec0 + 40 + 12, 4),
        "sec1_rawsize": (sec0 + 40 + 16, 4),
        "sec1_rawptr": (sec0 + 40 + 20, 4),
        "sec2_rawsize": (sec0 + 80 + 16, 4),
        "sec0_rawsize": (sec0 + 16, 4),
        "sec0_rawptr": (sec0 + 20, 4),
        "sec2_vsize": (sec0 + 80 + 8, 4),
        "sec2_va": (sec0 + 80 + 12, 4),
        "sec2_rawptr": (sec0 + 80 + 20, 4),
        "symtab_ptr": (fh + 8, 4),
        "characteristics": (fh + 18, 2),
        "size_of_code": (opt + 4, 4),
        "entry_point": (opt + 16, 4),
        "section_alignment": (opt + 32, 4),
        "file_alignment": (opt + 36, 4),
        "size_of_image": (opt + 56, 4),
        "checksum": (opt + 64, 4),
        "export_dir_stamp": (soh + 0x200 + 0x14, 4),
        "size_of_headers_value": soh,
        "data_off": soh + 0x400,
    }


def selftest():
    for arch in ("x86", "x64"):
        for lf in (0x40, 0x80, 0xF8, 0x3F8):
            img = build_pe(arch=arch, e_lfanew=lf, data=b"x" * 10)
            assert img[:4] == b"MZRE" and img[lf : lf + 2] == b"PE"
            mach, nsec, ts = struct.unpack_from("<HHI", img, lf + 4)
            assert mach == (M_AMD64 if arch == "x64" else M_I386) and nsec == 3 and ts == 0x5FA0B201
            lay = layout(arch, lf, 10)
            assert struct.unpack_from("<I", img, lay["export_dir_stamp"][0])[0] == 0x5FA0B264
            assert struct.unpack_from("<I", img, lay["export_rva"][0])[0] == 0x2010
            assert img[lay["data_off"] : lay["data_off"] + 10] == b"x" * 10
            assert struct.unpack_from("<II", img, lay["section_alignment"][0]) == (0x1000, 0x200)
            assert struct.unpack_from("<I", img, lay["sec2_va"][0])[0] == 0x3000 and struct.unpack_from("<I", img, lay["entry_point"][0])[0] == 0x1000
