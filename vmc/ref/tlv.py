"""Reference beacon-settings (TLV) encoder/decoder, written from the Cobalt Strike format, not from the library.

record := index:u16be type:u16be length:u16be value[length]       terminator := index 0 (first two bytes 00 00)
types: 0 NONE, 1 SHORT (2 bytes, unsigned big endian), 2 INT (4 bytes, unsigned big endian), 3 PTR (raw bytes)
"""

from __future__ import annotations

import struct
import zipfile

T_NONE, T_SHORT, T_INT, T_PTR = 0, 1, 2, 3

NAMES = {
    1: "SETTING_PROTOCOL", 2: "SETTING_PORT", 3: "SETTING_SLEEPTIME", 4: "SETTING_MAXGET", 5: "SETTING_JITTER",
    6: "SETTING_MAXDNS", 7: "SETTING_PUBKEY", 8: "SETTING_DOMAINS", 9: "SETTING_USERAGENT", 10: "SETTING_SUBMITURI",
    11: "SETTING_C2_RECOVER", 12: "SETTING_C2_REQUEST", 13: "SETTING_C2_POSTREQ", 14: "SETTING_SPAWNTO",
    15: "SETTING_PIPENAME", 18: "SETTING_KILLDATE_DAY", 19: "SETTING_DNS_IDLE", 20: "SETTING_DNS_SLEEP",
    21: "SETTING_SSH_HOST", 22: "SETTING_SSH_PORT", 23: "SETTING_SSH_USERNAME", 24: "SETTING_SSH_PASSWORD",
    25: "SETTING_SSH_KEY", 26: "SETTING_C2_VERB_GET", 27: "SETTING_C2_VERB_POST", 28: "SETTING_C2_CHUNK_POST",
    29: "SETTING_SPAWNTO_X86", 30: "SETTING_SPAWNTO_X64", 31: "SETTING_CRYPTO_SCHEME", 32: "SETTING_PROXY_CONFIG",
    33: "SETTING_PROXY_USER", 34: "SETTING_PROXY_PASSWORD", 35: "SETTING_PROXY_BEHAVIOR", 37: "SETTING_WATERMARK",
    38: "SETTING_CLEANUP", 39: "SETTING_CFG_CAUTION", 40: "SETTING_KILLDATE", 41: "SETTING_GARGLE_NOOK",
    42: "SETTING_GARGLE_SECTIONS", 43: "SETTING_PROCINJ_PERMS_I", 44: "SETTING_PROCINJ_PERMS",
    45: "SETTING_PROCINJ_MINALLOC", 46: "SETTING_PROCINJ_TRANSFORM_X86", 47: "SETTING_PROCINJ_TRANSFORM_X64",
    49: "SETTING_BINDHOST", 50: "SETTING_HTTP_NO_COOKIES", 51: "SETTING_PROCINJ_EXECUTE",
    52: "SETTING_PROCINJ_ALLOCATOR", 53: "SETTING_PROCINJ_STUB", 54: "SETTING_HOST_HEADER", 55: "SETTING_EXIT_FUNK",
    56: "SETTING_SSH_BANNER", 57: "SETTING_SMB_FRAME_HEADER", 58: "SETTING_TCP_FRAME_HEADER",
    59: "SETTING_HEADERS_REMOVE", 60: "SETTING_DNS_BEACON_BEACON", 61: "SETTING_DNS_BEACON_GET_A",
    62: "SETTING_DNS_BEACON_GET_AAAA", 63: "SETTING_DNS_BEACON_GET_TXT", 64: "SETTING_DNS_BEACON_PUT_METADATA",
    65: "SETTING_DNS_BEACON_PUT_OUTPUT", 66: "SETTING_DNSRESOLVER", 67: "SETTING_DOMAIN_STRATEGY",
    68: "SETTING_DOMAIN_STRATEGY_SECONDS", 69: "SETTING_DOMAIN_STRATEGY_FAIL_X",
    70: "SETTING_DOMAIN_STRATEGY_FAIL_SECONDS", 71: "SETTING_MAX_RETRY_STRATEGY_ATTEMPTS",
    72: "SETTING_MAX_RETRY_STRATEGY_INCREASE", 73: "SETTING_MAX_RETRY_STRATEGY_DURATION",
    74: "SETTING_MASKED_WATERMARK", 76: "SETTING_DATA_STORE_SIZE", 77: "SETTING_HTTP_DATA_REQUIRED",
    78: "SETTING_BEACON_GATE",
}
# indices whose enum value carries two names (the accepted spellings); 36 is named by its type
ALIASES = {
    16: ("SETTING_KILLDATE_YEAR", "SETTING_BOF_ALLOCATOR"),
    17: ("SETTING_KILLDATE_MONTH", "SETTING_SYSCALL_METHOD"),
    48: ("SETTING_PROCINJ_ALLOWED", "SETTING_PROCINJ_BOF_REUSE_MEM"),
}


def acceptable_names(index: int, typ: int):
    if index == 36:
        return ("SETTING_INJECT_OPTIONS",) if typ == T_SHORT else ("SETTING_WATERMARKHASH",)
    if index in ALIASES:
        return ALIASES[index]
    if index in NAMES:
        return (NAMES[index],)
    return (f"BeaconSetting_{index}",)


def rec(index: int, typ: int, value: bytes, length=None) -> bytes:
    return struct.pack(">HHH", index, typ, len(value) if length is None else length) + value


def short(index: int, v: int) -> bytes:
    return rec(index, T_SHORT, struct.pack(">H", v))


def int_(index: int, v: int) -> bytes:
    return rec(index, T_INT, struct.pack(">I", v))


def ptr(index: int, v: bytes, pad=None) -> bytes:
    if pad:
        v = v.ljust(pad, b"\x00")
    return rec(index, T_PTR, v)


def encode(settings, terminator=b"\x00\x00") -> bytes:
    """settings: iterable of (index, type, value_bytes)"""
    return b"".join(rec(i, t, v) for (i, t, v) in settings) + terminator


def decode(block: bytes):
    """Independent decoder: list of (index, type, length, value) until a zero index / truncated record / EOF.

    Does NOT model the over-long User-Agent continuation (callers that need it add it explicitly)."""
    out = []
    p = 0
    n = len(block)
    while p + 2 <= n:
        if block[p : p + 2] == b"\x00\x00":
            break
        if p + 6 > n:
            break
        i, t, ln = struct.unpack_from(">HHH", block, p)
        if p + 6 + ln > n:
            break
        out.append((i, t, ln, block[p + 6 : p + 6 + ln]))
        p += 6 + ln
    return out


def value_of(typ: int, raw: bytes):
    """The exposed value of a setting: SHORT/INT as unsigned big-endian integers, everything else raw bytes."""
    if typ == T_SHORT:
        return int.from_bytes(raw[:2], "big")
    if typ == T_INT:
        return int.from_bytes(raw[:4], "big")
    return raw


def selftest():
    # round trip of the reference itself over a mixed list
    s = [(1, T_SHORT, b"\x00\x08"), (2, T_SHORT, b"\x01\xbb"), (3, T_INT, b"\x00\x00\xea\x60"), (9, T_PTR, b"UA\x00\x00"), (300, T_NONE, b"")]
    blk = encode(s) + b"\x00" * 10
    assert [(i, t, v) for (i, t, ln, v) in decode(blk)] == s
    assert value_of(T_SHORT, b"\x80\x00") == 0x8000 and value_of(T_INT, b"\xff\xff\xff\xff") == 0xFFFFFFFF
    # ground truth: a real sample's config block (key 0x2e, default header) decodes with this decoder to the
    # port / sleeptime the repository's test-suite asserts for it
    from vmc.ref import samples

    found = 0
    for fn in samples.names():
        done = False
        for view in samples.views(samples.read(fn)):
            for key in (0x69, 0x2E, 0xAF, 0xCC, 0x00):
                hdr = bytes(b ^ key for b in b"\x00\x01\x00\x01\x00\x02\x00")
                o = view.find(hdr)
                if o >= 0:
                    blk = bytes(b ^ key for b in view[o : o + 4096])
                    recs = decode(blk)
                    assert recs and recs[0][0] == 1 and recs[0][1] == T_SHORT, fn
                    idx = [r[0] for r in recs]
                    assert 7 in idx and 8 in idx, (fn, idx)  # every real beacon carries a public key and domains
                    found += 1
                    done = True
                    break
            if done:
                break
    assert found >= 5, found
