"""Access to the real sample beacons shipped with the repository's tests (ground truth for the reference models)."""

from __future__ import annotations

import os
import struct
import zipfile

DIR = "/repo/tests/beacons"


def names():
    return sorted(f for f in os.listdir(DIR) if f.endswith(".zip"))


def read(name: str) -> bytes:
    zf = zipfile.ZipFile(os.path.join(DIR, name))
    return zf.read(zf.namelist()[0], pwd=b"dissect.cobaltstrike")


def views(data: bytes):
    """[raw] plus the XorEncoded decoding for every nonce offset < 1024 whose size field is consistent."""
    from vmc.ref import xorenc

    out = [data]
    for off in range(0, min(1024, max(0, len(data) - 8))):
        a, b = data[off : off + 4], data[off + 4 : off + 8]
        sz = struct.unpack("<I", bytes(x ^ y for x, y in zip(a, b)))[0]
        if sz + off + 8 == len(data):
            out.append(xorenc.decode(data, off))
    return out
