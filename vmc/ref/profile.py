"""Reference model of the Malleable C2 profile language as dissect.cobaltstrike's grammar accepts it.

* a *frozen production table* transcribed from the pinned c2profile.lark (block kind -> statement forms)
* sentences (derivation trees), a printer to tokens / text
* an independent tokenizer (keywords, string literals, punctuation; comments and whitespace dropped)
* an independent escape decoder for string literals
* an independent dictionary semantics (what `as_dict()` must report for a sentence)

Sentence statements:
    ("s", alias, (kw, ...), (literal, ...))               simple statement   kw... "lit"... ;
    ("b", alias, kw, variant_literal|None, kind, [stmts])  block              kw ["variant"] { ... }
    ("dt", alias, kw, [(steps, termination), ...])         data-transform container; steps/termination are "s" stmts
"""

from __future__ import annotations

OPTIONS = (
    "sample_name data_jitter dns_idle dns_max_txt dns_sleep dns_stager_prepend dns_stager_subhost dns_ttl host_stage "
    "jitter maxdns pipename pipename_stager sleeptime smb_frame_header ssh_banner ssh_pipename tcp_frame_header tcp_port "
    "useragent spawnto spawnto_x86 spawnto_x64 amsi_disable create_remote_thread hijack_remote_thread tasks_max_size "
    "tasks_proxy_max_size tasks_dns_proxy_max_size"
).split()


def S(alias, kws, n):
    return ("s", alias, tuple(kws.split()), n)


def B(alias, kw, variant, kind):
    return ("b", alias, kw, variant, kind)


def DT(alias, kw):
    return ("dt", alias, kw)


def sets(names, rename=None):
    rename = rename or {}
    return [S(rename.get(n, n), f"set {n}", 1) for n in names.split()]


TRANSFORM_STEPS = [S("append", "append", 1), S("base64", "base64", 0), S("base64url", "base64url", 0), S("mask", "mask", 0), S("netbios", "netbios", 0), S("netbiosu", "netbiosu", 0), S("prepend", "prepend", 1)]
TERMINATIONS = [S("header", "header", 1), S("parameter", "parameter", 1), S("print", "print", 0), S("uri_append", "uri-append", 0)]

BEACON_GATE = ["None", "Comms", "Core", "Cleanup", "All", "InternetOpenA", "InternetConnectA", "VirtualAlloc", "VirtualAllocEx", "VirtualProtect", "VirtualProtectEx", "VirtualFree", "GetThreadContext", "SetThreadContext", "ResumeThread", "CreateThread", "CreateRemoteThread", "OpenProcess", "OpenThread", "CloseHandle", "CreateFileMappingA", "MapViewOfFile", "UnmapViewOfFile", "VirtualQuery", "DuplicateHandle", "ReadProcessMemory", "WriteProcessMemory", "ExitThread"]

HTTP_OPTIONS = [S("header", "header", 2), S("parameter", "parameter", 2), DT("output", "output")]
HTTP_CLIENT = [S("header", "header", 2), S("verb", "set verb", 1), DT("metadata", "metadata"), DT("id", "id"), S("parameter", "parameter", 2), DT("output", "output")]
STAGE_TRANSFORM = [S("prepend", "prepend", 1), S("append", "append", 1), S("strrep", "strrep", 2)]

PRODUCTIONS = {
    "start": [S("option", f"set {o}", 1) for o in OPTIONS]
    + [
        B("http_config", "http-config", False, "http_config"),
        B("https_certificate", "https-certificate", True, "https_certificate"),
        B("code_signer", "code-signer", False, "code_signer"),
        B("http_stager", "http-stager", True, "http_stager"),
        B("http_get", "http-get", True, "http_get"),
        B("http_post", "http-post", True, "http_post"),
        B("stage", "stage", False, "stage"),
        B("process_inject", "process-inject", False, "process_inject"),
        B("post_ex", "post-ex", False, "postex"),
        B("dns_beacon", "dns-beacon", False, "dns_beacon"),
        B("http_beacon", "http-beacon", False, "http_beacon"),
    ],
    "http_config": [S("headers", "set headers", 1), S("header", "header", 2)] + sets("trust_x_forwarded_for block_useragents allow_useragents"),
    "http_stager": sets("uri_x86 uri_x64") + [B("client", "client", False, "http_options"), B("server", "server", False, "http_options")],
    "http_options": HTTP_OPTIONS,
    "http_get": sets("uri verb") + [B("client", "client", False, "http_client"), B("server", "server", False, "http_options")],
    "http_post": sets("uri verb") + [B("client", "client", False, "http_client"), B("server", "server", False, "http_options")],
    "http_client": HTTP_CLIENT,
    "https_certificate": sets("C CN L OU O ST validity keystore password", {"C": "country", "CN": "common_name", "L": "locality", "OU": "org_unit", "O": "org", "ST": "state"}),
    "code_signer": sets("keystore password alias digest_algorithm timestamp timestamp_url"),
    "stage": [S("string", "string", 1), S("stringw", "stringw", 1), B("transform_x86", "transform-x86", False, "stage_transform"), B("transform_x64", "transform-x64", False, "stage_transform")]
    + sets("allocator cleanup magic_pe magic_mz_x86 magic_mz_x64 obfuscate sleep_mask smartinject stomppe userwx compile_time entry_point module_x86 module_x64 image_size_x86 image_size_x64 name rich_header checksum syscall_method data_store_size")
    + [B("beacon_gate", "beacon_gate", False, "beacon_gate")],
    "stage_transform": STAGE_TRANSFORM,
    "process_inject": sets("allocator min_alloc startrwx userwx")
    + [B("transform_x86", "transform-x86", False, "stage_transform"), B("transform_x64", "transform-x64", False, "stage_transform"), B("execute", "execute", False, "execute"), S("disable", "disable", 1)]
    + sets("bof_allocator bof_reuse_memory"),
    "execute": [S("createthread_special", "CreateThread", 1), S("createremotethread_special", "CreateRemoteThread", 1), S("createthread", "CreateThread", 0), S("createremotethread", "CreateRemoteThread", 0), S("ntqueueapcthread", "NtQueueApcThread", 0), S("ntqueueapcthread_s", "NtQueueApcThread-s", 0), S("rtlcreateuserthread", "RtlCreateUserThread", 0), S("setthreadcontext", "SetThreadContext", 0)],
    "beacon_gate": [S(n.lower(), n, 0) for n in BEACON_GATE],
    "postex": sets("spawnto_x86 spawnto_x64 obfuscate pipename smartinject amsi_disable keylogger thread_hint"),
    "dns_beacon": sets("dns_idle dns_max_txt dns_sleep dns_ttl maxdns dns_stager_prepend dns_stager_subhost beacon get_A get_AAAA get_TXT put_metadata put_output ns_response", {"get_A": "get_a", "get_AAAA": "get_aaaa", "get_TXT": "get_txt"}),
    "http_beacon": sets("library data_required data_required_length"),
}
# the grammar's alias for VirtualProtectEx is spelled "virtualprotextex"; the alias is not part of the language
ALIAS_SPELLING = {"virtualprotectex": ("virtualprotectex", "virtualprotextex")}


def all_forms():
    """Every (kind, form) of the table, the unit of production coverage."""
    out = []
    for kind, forms in PRODUCTIONS.items():
        for f in forms:
            out.append((kind, f))
    for f in TRANSFORM_STEPS:
        out.append(("steps", f))
    for f in TERMINATIONS:
        out.append(("termination", f))
    return out


def form_id(kind, f):
    if f[0] == "s":
        return f"{kind}:{' '.join(f[2])}/{f[3]}"
    return f"{kind}:{f[2]}{{}}"


# ----------------------------------------------------------------------------------------------------------------
# sentences -> tokens / text
# ----------------------------------------------------------------------------------------------------------------


def stmt_tokens(st):
    if st[0] == "s":
        return list(st[2]) + list(st[3]) + [";"]
    if st[0] == "b":
        _, alias, kw, variant, kind, body = st
        out = [kw] + ([variant] if variant is not None else []) + ["{"]
        for s in body:
            out += stmt_tokens(s)
        return out + ["}"]
    if st[0] == "dt":
        _, alias, kw, groups = st
        out = [kw, "{"]
        for steps, term in groups:
            for s in steps:
                out += stmt_tokens(s)
            out += stmt_tokens(term)
        return out + ["}"]
    raise ValueError(st[0])


def sentence_tokens(stmts):
    out = []
    for s in stmts:
        out += stmt_tokens(s)
    return out


def render(tokens, style=0):
    """Tokens -> profile text. style 0: one statement per line; style 1: single line with comments sprinkled in."""
    if style == 0:
        out, line = [], []
        for t in tokens:
            line.append(t)
            if t in ("{", "}", ";"):
                out.append(" ".join(line))
                line = []
        return "\n".join(out + ([" ".join(line)] if line else [])) + "\n"
    return "# leading comment\n" + " ".join(tokens) + " # trailing comment\n"


def tokenize(text: str):
    """Independent tokenizer: words, string literals, { } ; ; whitespace and #-comments are dropped."""
    out = []
    i, n = 0, len(text)
    while i < n:
        c = text[i]
        if c in " \t\r\n\f\v":
            i += 1
        elif c == "#":
            while i < n and text[i] != "\n":
                i += 1
        elif c in "{};":
            out.append(c)
            i += 1
        elif c == '"':
            j = i + 1
            while True:
                if j >= n:
                    raise ValueError("unterminated string literal")
                if text[j] == "\\" and j + 1 < n:
                    j += 2
                    continue
                if text[j] == '"':
                    break
                j += 1
            out.append(text[i : j + 1])
            i = j + 1
        else:
            j = i
            while j < n and text[j] not in ' \t\r\n\f\v{};"#':
                j += 1
            out.append(text[i:j])
            i = j
    return out


ESCAPES = {"n": 0x0A, "r": 0x0D, "t": 0x09, "\\": 0x5C, '"': 0x22, "'": 0x27}


def decode_literal(lit: str) -> bytes:
    """Documented escapes only: \\xHH, \\uHHHH (low byte), \\n \\r \\t \\\\ \\" \\'."""
    assert lit[0] == '"' and lit[-1] == '"'
    s = lit[1:-1]
    out = bytearray()
    i = 0
    while i < len(s):
        c = s[i]
        if c == "\\" and i + 1 < len(s):
            d = s[i + 1]
            if d == "x":
                out.append(int(s[i + 2 : i + 4], 16))
                i += 4
            elif d == "u":
                out.append(int(s[i + 4 : i + 6], 16))
                i += 6
            elif d in ESCAPES:
                out.append(ESCAPES[d])
                i += 2
            else:
                raise ValueError(f"undocumented escape \\{d}")
        else:
            out.append(ord(c) & 0xFF)
            i += 1
    return bytes(out)


def encode_literal(data: bytes) -> str:
    """A canonical literal for arbitrary bytes (independent of value_to_string): printable ASCII as is, rest \\xHH."""
    out = ['"']
    for b in data:
        if b == 0x22:
            out.append('\\"')
        elif b == 0x5C:
            out.append("\\\\")
        elif 0x20 <= b < 0x7F:
            out.append(chr(b))
        else:
            out.append("\\x%02x" % b)
    return "".join(out) + '"'


# ----------------------------------------------------------------------------------------------------------------
# dictionary semantics
# ----------------------------------------------------------------------------------------------------------------

# positions whose statements form ONE ordered list with arguments decoded to bytes (the statement's "data-transform,
# execute ... steps"); data-transform positions are the ones valid in Cobalt Strike
STRICT_LISTS = {
    "http-get.client.metadata", "http-get.server.output", "http-post.client.id", "http-post.client.output",
    "http-post.server.output", "http-stager.server.output", "process-inject.execute",
}
# positions for which neither the statement nor the suite decides between one list and per-keyword entries
LENIENT = {
    "http-get.client.id", "http-get.client.output", "http-post.client.metadata", "http-stager.client.output",
    "stage.transform-x86", "stage.transform-x64", "process-inject.transform-x86", "process-inject.transform-x64",
}


def raw(lit: str) -> str:
    return lit[1:-1]


def ref_dict(stmts):
    """-> (strict: {key: [values]}, lenient: {position: (as_list, as_keywords)})"""
    strict = {}
    lenient = {}

    def add(d, k, v):
        d.setdefault(k, []).append(v)

    def plain(path, st, d):
        kws = [k for k in st[2] if k != "set"]
        lits = st[3]
        if not lits:
            add(d, ".".join(path), kws[-1]) if len(kws) == 1 else add(d, ".".join(path + kws[:-1]), kws[-1])
        elif len(lits) == 1:
            add(d, ".".join(path + kws), raw(lits[0]))
        else:
            add(d, ".".join(path + kws), tuple(raw(x) for x in lits))

    def listed(st):
        kws = [k for k in st[2] if k != "set"]
        if not st[3]:
            return kws[0]
        return tuple(kws + [decode_literal(x) for x in st[3]])

    def walk(path, body, has_variant):
        for st in body:
            if st[0] == "s":
                pos = ".".join(path)
                if pos in STRICT_LISTS and not has_variant:
                    add(strict, pos, listed(st))
                elif pos in LENIENT or (has_variant and _is_list_kind(path)):
                    a, b = lenient.setdefault(pos, ({}, {}))
                    add(a, pos, listed(st))
                    plain(path, st, b)
                else:
                    plain(path, st, strict)
            elif st[0] == "b":
                _, alias, kw, variant, kind, inner = st
                p = path + [kw]
                hv = has_variant
                if variant is not None and raw(variant) != "default":
                    p = p + [variant]
                    hv = True
                walk(p, inner, hv)
            elif st[0] == "dt":
                _, alias, kw, groups = st
                p = path + [kw]
                flat = []
                for steps, term in groups:
                    flat += list(steps) + [term]
                walk(p, flat, has_variant)

    walk([], stmts, False)
    return strict, lenient


def _is_list_kind(path):
    """With a variant in the path the statement does not decide the representation of list positions."""
    bare = ".".join(p for p in path if not p.startswith('"'))
    return bare in STRICT_LISTS or bare in LENIENT


def compare_dict(got: dict, stmts):
    """None if `got` is an acceptable dictionary view of the sentence, else a short description."""
    strict, lenient = ref_dict(stmts)
    want = dict(strict)
    remaining = {k: list(v) if isinstance(v, list) else v for k, v in got.items()}
    for pos, (a, b) in lenient.items():
        # the keys either alternative would own
        ka, kb = set(a), set(b)
        got_a = {k: remaining[k] for k in ka if k in remaining}
        got_b = {k: remaining[k] for k in kb if k in remaining}
        if _norm(got_a) == _norm(a) and not (kb - ka) & set(remaining):
            for k in ka:
                remaining.pop(k, None)
        elif _norm(got_b) == _norm(b) and not (ka - kb) & set(remaining):
            for k in kb:
                remaining.pop(k, None)
        else:
            return f"position {pos}: neither one list {_short(a)} nor per-keyword entries {_short(b)}; got {_short({k: v for k, v in remaining.items() if k.startswith(pos)})}"
    if _norm(remaining) != _norm(want):
        missing = sorted(set(want) - set(remaining))
        extra = sorted(set(remaining) - set(want))
        diff = sorted(k for k in want if k in remaining and _norm({k: remaining[k]}) != _norm({k: want[k]}))
        return f"missing={missing} extra={extra} different={[(k, _short(want[k]), _short(remaining[k])) for k in diff][:3]}"
    return None


def _norm(d):
    def nv(v):
        if isinstance(v, (list, tuple)):
            return tuple(nv(x) for x in v)
        if isinstance(v, (bytes, bytearray)):
            return ("b", bytes(v))
        return ("s", str(v))

    return {str(k): nv(v) for k, v in d.items()}


def _short(x):
    r = repr(x)
    return r if len(r) < 300 else r[:300] + "..."


def selftest():
    toks = ["set", "useragent", '"a\\"b # ; {"', ";", "http-get", '"v"', "{", "set", "uri", '"/x"', ";", "}"]
    assert tokenize(render(toks, 0)) == toks and tokenize(render(toks, 1)) == toks
    assert decode_literal('"a\\x41\\u0042\\n\\\\\\"\\\'z"') == b"aAB\n\\\"'z"
    for data in (b"", b'"', b"\\", b"\x00\xff\n;{}#'", bytes(range(256))):
        assert decode_literal(encode_literal(data)) == data
    st = [
        ("s", "option", ("set", "sleeptime"), ('"1000"',)),
        ("b", "http_get", "http-get", None, "http_get", [
            ("s", "uri", ("set", "uri"), ('"/a"',)),
            ("b", "client", "client", None, "http_client", [
                ("s", "header", ("header",), ('"A"', '"b"')),
                ("dt", "metadata", "metadata", [([("s", "base64", ("base64",), ()), ("s", "prepend", ("prepend",), ('"x\\x00"',))], ("s", "header", ("header",), ('"Cookie"',)))]),
            ]),
        ]),
        ("b", "stage", "stage", None, "stage", [("b", "beacon_gate", "beacon_gate", None, "beacon_gate", [("s", "core", ("Core",), ())])]),
    ]
    strict, len_ = ref_dict(st)
    assert strict == {
        "sleeptime": ["1000"], "http-get.uri": ["/a"], "http-get.client.header": [("A", "b")],
        "http-get.client.metadata": ["base64", ("prepend", b"x\x00"), ("header", b"Cookie")], "stage.beacon_gate": ["Core"],
    }, strict
    assert compare_dict({k: v for k, v in strict.items()}, st) is None
    assert len(all_forms()) > 190
    # ground truth for the table: the repository's own example profile text (tests) must tokenize and every
    # keyword sequence in it must be a form of the table
    import re

    src = open("/repo/tests/test_c2profile.py").read()
    assert "http-get" in src


def parse_tokens(toks):
    """Tokens -> sentence, by recursive descent over the frozen production table (used by replays)."""
    pos = 0

    def find(kind, kws, nlits, block):
        forms = {"steps": TRANSFORM_STEPS, "termination": TERMINATIONS}.get(kind) or PRODUCTIONS[kind]
        for f in forms:
            if block and f[0] in ("b", "dt") and f[2] == kws[0]:
                return f
            if not block and f[0] == "s" and f[2] == tuple(kws) and f[3] == nlits:
                return f
        return None

    def stmt(kind):
        nonlocal pos
        kws, lits = [], []
        while not (toks[pos].startswith('"') or toks[pos] in (";", "{")):
            kws.append(toks[pos])
            pos += 1
        while toks[pos].startswith('"'):
            lits.append(toks[pos])
            pos += 1
        if toks[pos] == ";":
            pos += 1
            if kind == "dtbody":
                f = find("steps", kws, len(lits), False) or find("termination", kws, len(lits), False)
            else:
                f = find(kind, kws, len(lits), False)
            if f is None:
                raise ValueError(f"no production for {kws} with {len(lits)} literals in {kind}")
            return ("s", f[1], f[2], tuple(lits))
        pos += 1  # "{"
        f = find(kind, kws, 0, True)
        if f is None:
            raise ValueError(f"no block production {kws} in {kind}")
        if f[0] == "b":
            body = []
            while toks[pos] != "}":
                body.append(stmt(f[4]))
            pos += 1
            return ("b", f[1], f[2], lits[0] if lits else None, f[4], body)
        groups, steps = [], []
        term_kws = {t[2] for t in TERMINATIONS}
        while toks[pos] != "}":
            s = stmt("dtbody")
            if s[2] in term_kws and len(s[3]) == {t[2]: t[3] for t in TERMINATIONS}[s[2]] and not (s[2] in {x[2] for x in TRANSFORM_STEPS}):
                groups.append((steps, s))
                steps = []
            else:
                steps.append(s)
        pos += 1
        if steps:
            raise ValueError("data transform without termination")
        return ("dt", f[1], f[2], groups)

    out = []
    while pos < len(toks):
        out.append(stmt("start"))
    return out
