"""Reference HTTP/1.x wire serialiser and parser (RFC 7230 message framing, RFC 3986 percent-encoding)."""

from __future__ import annotations

UNRESERVED = frozenset(b"ABCDEFGHIJKLMNOPQRSTUVWXYZabcdefghijklmnopqrstuvwxyz0123456789-._~")


def pct_encode(data: bytes, upper=True) -> bytes:
    out = bytearray()
    for b in data:
        if b in UNRESERVED:
            out.append(b)
        else:
            out += (b"%%%02X" if upper else b"%%%02x") % b
    return bytes(out)


def pct_decode(data: bytes, plus_is_space=True) -> bytes:
    out = bytearray()
    i = 0
    while i < len(data):
        c = data[i]
        if c == 0x25 and i + 2 < len(data) + 0 and _ishex(data[i + 1 : i + 3]):
            out.append(int(data[i + 1 : i + 3], 16))
            i += 3
        elif c == 0x2B and plus_is_space:
            out.append(0x20)
            i += 1
        else:
            out.append(c)
            i += 1
    return bytes(out)


def _ishex(b: bytes) -> bool:
    return len(b) == 2 and all(c in b"0123456789abcdefABCDEF" for c in b)


def serialize_request(method: bytes, path: bytes, params, headers, body: bytes, version=b"HTTP/1.1", upper=True) -> bytes:
    """params / headers: ordered lists of (key, value) byte pairs"""
    target = path
    if params:
        target += b"?" + b"&".join(pct_encode(k, upper) + b"=" + pct_encode(v, upper) for k, v in params)
    lines = [method + b" " + target + b" " + version] + [k + b": " + v for k, v in headers]
    return b"\r\n".join(lines) + b"\r\n\r\n" + body


def serialize_response(status: int, reason: bytes, headers, body: bytes, version=b"HTTP/1.1") -> bytes:
    lines = [version + b" " + str(status).encode() + b" " + reason] + [k + b": " + v for k, v in headers]
    return b"\r\n".join(lines) + b"\r\n\r\n" + body


def parse(raw: bytes):
    """Independent parser used by the reference team server (C07)."""
    head, sep, body = raw.partition(b"\r\n\r\n")
    lines = head.split(b"\r\n")
    start = lines[0].split(b" ")
    headers = {}
    for ln in lines[1:]:
        if not ln:
            continue
        k, _, v = ln.partition(b": ")
        headers[k] = v
    if start[0].upper().startswith(b"HTTP/"):
        return {"type": "response", "status": int(start[1]), "reason": b" ".join(start[2:]), "headers": headers, "body": body}
    method, target = start[0], start[1]
    path, _, query = target.partition(b"?")
    params = {}
    if query:
        for pair in query.split(b"&"):
            k, _, v = pair.partition(b"=")
            params[pct_decode(k)] = pct_decode(v)
    return {"type": "request", "method": method, "uri": path, "params": params, "headers": headers, "body": body}


def selftest():
    assert pct_encode(b"a b&=+\x80~") == b"a%20b%26%3D%2B%80~"
    for b in range(256):
        assert pct_decode(pct_encode(bytes([b]))) == bytes([b])
    raw = serialize_request(b"GET", b"/x/y", [(b"k 1", b"\x00\xff")], [(b"Host", b"h"), (b"A", b"b: c")], b"body\r\n\r\nmore")
    assert raw == b"GET /x/y?k%201=%00%FF HTTP/1.1\r\nHost: h\r\nA: b: c\r\n\r\nbody\r\n\r\nmore"
    p = parse(raw)
    assert p == {"type": "request", "method": b"GET", "uri": b"/x/y", "params": {b"k 1": b"\x00\xff"}, "headers": {b"Host": b"h", b"A": b"b: c"}, "body": b"body\r\n\r\nmore"}
    r = parse(serialize_response(404, b"Not-Found", [(b"Content-Length", b"1")], b"\x00"))
    assert r["status"] == 404 and r["body"] == b"\x00" and r["headers"] == {b"Content-Length": b"1"}
