"""Reference Guardrails masker (Cobalt Strike 4.8+ environmental keying), independent of the library.

protected area := masked_config[6144] | masked_guard[2048]
    masked_config = config (padded to 6144) XOR envkey (repeating) XOR 0x2e
    guard         = guard settings (options 5..8) | setting 9 (INT) = checksum(config)+1 | 00 00 | padding
    masked_guard  = guard XOR reversed(masked_config)[:2048] XOR 0x8a
"""

from __future__ import annotations

import struct

CONFIG_SIZE = 6144
GUARD_SIZE = 2048
G_USER, G_COMPUTER, G_DOMAIN, G_LOCAL_IP, G_CHECKSUM = 5, 6, 7, 8, 9
# the shapes of the guard options as the beacon stores them (hash of the value as SHORT / address as INT)
OPTION_SHAPES = {G_USER: (1, 2), G_COMPUTER: (1, 2), G_DOMAIN: (1, 2), G_LOCAL_IP: (2, 4)}


def xorb(a: bytes, b: bytes) -> bytes:
    return bytes(x ^ y for x, y in zip(a, b))


def rep(key: bytes, n: int) -> bytes:
    return (key * (n // len(key) + 1))[:n]


def checksum(data: bytes) -> int:
    n = 0
    for i, b in enumerate(data):
        n = (n + b * (i % 3 + 1)) % 99999999
    return n


def guard_settings(options, config_padded: bytes, checksum_delta=1) -> bytes:
    g = b"".join(struct.pack(">HHH", o, OPTION_SHAPES[o][0], OPTION_SHAPES[o][1]) + v for o, v in options)
    g += struct.pack(">HHH", G_CHECKSUM, 2, 4) + struct.pack(">I", (checksum(config_padded) + checksum_delta) & 0xFFFFFFFF) + b"\x00\x00"
    return g


def protect(config_block: bytes, envkey: bytes, options, pad_byte=0, checksum_delta=1):
    """-> (area bytes, padded config, unmasked guard bytes)"""
    cb = config_block.ljust(CONFIG_SIZE, bytes([pad_byte]))
    assert len(cb) == CONFIG_SIZE
    masked = xorb(xorb(cb, rep(envkey, CONFIG_SIZE)), b"\x2e" * CONFIG_SIZE)
    g = guard_settings(options, cb, checksum_delta).ljust(GUARD_SIZE, b"\x00")
    mg = xorb(xorb(g, masked[::-1][:GUARD_SIZE]), b"\x8a" * GUARD_SIZE)
    return masked + mg, cb, g


def is_primitive(key: bytes) -> bool:
    n = len(key)
    return not any(n % d == 0 and key == key[:d] * (n // d) for d in range(1, n))


def selftest():
    from vmc.ref import samples

    assert checksum(b"\x01\x01\x01\x01") == 1 + 2 + 3 + 1
    assert is_primitive(b"ab") and not is_primitive(b"abab") and not is_primitive(b"aa")
    # ground truth: re-mask the real Guardrails sample. The environmental key is recovered here *independently*
    # (frequency analysis of the zero padding for the true key length), not taken from the library.
    data = None
    for fn in samples.names():
        if fn.startswith("124552cf"):
            for v in samples.views(samples.read(fn)):
                data = v
    assert data is not None
    starts = [struct.pack(">HHH", o, *OPTION_SHAPES[o]) for o in OPTION_SHAPES]
    found = None
    for off in range(CONFIG_SIZE - 6, len(data) - 12):
        a, b = data[off : off + 6], data[off + 6 : off + 12]
        if bytes(x ^ 0x8A for x in xorb(a[::-1], b)) in starts:
            found = off + 6
            break
    assert found is not None, "guard marker not found in the sample by the reference scan"
    masked = data[found - CONFIG_SIZE : found]
    mguard = data[found : found + GUARD_SIZE]
    guard = bytes(x ^ 0x8A for x in xorb(mguard, masked[::-1][:GUARD_SIZE]))
    # parse guard settings -> stored checksum
    p, stored = 0, None
    while guard[p : p + 2] != b"\x00\x00":
        o, t, ln = struct.unpack_from(">HHH", guard, p)
        v = guard[p + 6 : p + 6 + ln]
        if o == G_CHECKSUM:
            stored = struct.unpack(">I", v)[0]
        p += 6 + ln
    guarded = bytes(x ^ 0x2E for x in masked)
    ok = False
    import collections

    for klen in range(2, 65):
        grams = collections.Counter(guarded[i : i + klen] for i in range(0, CONFIG_SIZE - klen + 1, klen))
        key, _ = grams.most_common(1)[0]
        cfg = xorb(guarded, rep(key, CONFIG_SIZE))
        if checksum(cfg) + 1 == stored:
            area, cb, g = protect(cfg, key, [])
            assert area[:CONFIG_SIZE] == masked, "reference masker does not reproduce the sample's masked configuration"
            assert cfg[:7] == b"\x00\x01\x00\x01\x00\x02\x00"
            ok = True
            break
    assert ok, "could not validate the reference masker against the real sample"
