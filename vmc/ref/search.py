"""Reference (naive) search order for beacon configuration blocks: the oracle of C01."""

from __future__ import annotations

HEADER = b"\x00\x01\x00\x01\x00\x02\x00"
PATCH = 4096
DEFAULT_KEYS = (0x69, 0x2E, 0x00)


def xorb(data: bytes, key: int) -> bytes:
    return bytes(b ^ key for b in data) if key else bytes(data)


def candidates(view: bytes, keys):
    """For each key in list order: every offset (ascending, overlaps allowed) where header^key occurs."""
    out = []
    for k in keys:
        needle = xorb(HEADER, k)
        start = 0
        while True:
            o = view.find(needle, start)
            if o < 0:
                break
            out.append((xorb(view[o : o + PATCH], k), k, o))
            start = o + 1
    return out


def expected(views, keys):
    """views: ordered [(bytes, xorencoded flag)] - decoded view first when the container is XorEncoded.

    -> list of (block, key, flag) from the first view that has any candidate under `keys`."""
    for view, flag in views:
        c = candidates(view, keys)
        if c:
            return [(b, k, flag) for (b, k, o) in c]
    return []


def expected_all_keys(views, keys):
    """All-keys mode: the listed keys first; if nothing at all, the leftover keys.

    -> ("listed", sequence) or ("leftover", {key: [(block, flag)...]}, first_view_flag)"""
    first = expected(views, keys)
    if first:
        return ("listed", first)
    left = [k for k in range(256) if k not in keys]
    for view, flag in views:
        c = candidates(view, left)
        if c:
            per = {}
            for b, k, o in c:
                per.setdefault(k, []).append((b, flag))
            return ("leftover", per)
    return ("leftover", {})


def selftest():
    blk = HEADER + b"\x08\x00\x00"
    v = b"zz" + xorb(blk, 0x2E) + b"yy" + xorb(blk, 0x69)
    c = expected([(v, False)], DEFAULT_KEYS)
    assert [(k, f) for b, k, f in c] == [(0x69, False), (0x2E, False)] and c[1][0][:10] == blk
    assert expected([(b"nothing", True), (v, False)], [0x2E])[0][1:] == (0x2E, False)
    assert expected_all_keys([(xorb(blk, 0xAF), False)], DEFAULT_KEYS) == ("leftover", {0xAF: [(blk, False)]})
