"""Reference XorEncoded stage builder:  stub | nonce | size^nonce | rolling-XOR payload | trailer.

payload byte i is plain[i] ^ c[i-4] where c is the encoded stream and c[-4..-1] is the nonce.
"""

from __future__ import annotations

import struct

MARKER = b"\xff\xff\xff"
CALL_STUB = b"\xfc\xe8\x90\x90\xe8\xd4\xff\xff\xff"  # ends in the end-of-stub marker


def _x(a, b):
    return bytes(p ^ q for p, q in zip(a, b))


def encode(plain: bytes, nonce=b"\x12\x34\x56\x78", stub=CALL_STUB, size_ok=True, trailer=b"", size_delta=7) -> bytes:
    size = len(plain) if size_ok else len(plain) + size_delta
    out = bytearray(stub) + nonce + _x(struct.pack("<I", size & 0xFFFFFFFF), nonce)
    c = bytearray(nonce)
    for i, b in enumerate(plain):
        c.append(b ^ c[i])
    return bytes(out) + bytes(c[4:]) + trailer


def decode(blob: bytes, nonce_offset: int) -> bytes:
    nonce = blob[nonce_offset : nonce_offset + 4]
    enc = blob[nonce_offset + 8 :]
    c = nonce + enc
    return bytes(enc[i] ^ c[i] for i in range(len(enc)))


def selftest():
    p = bytes(range(1, 12))
    for nonce in (b"\x00" * 4, b"\xff" * 4, b"\x12\x34\x56\x78"):
        for stub in (b"", CALL_STUB, b"\x90" * 5):
            e = encode(p, nonce, stub)
            assert decode(e, len(stub)) == p
            assert struct.unpack("<I", _x(e[len(stub) + 4 : len(stub) + 8], nonce))[0] == len(p)
    # ground truth: a real XorEncoded sample from the repository decodes to a PE image with this decoder
    import os, zipfile

    d = "/repo/tests/beacons"
    ok = 0
    for fn in sorted(os.listdir(d)):
        if not fn.endswith(".zip"):
            continue
        zf = zipfile.ZipFile(os.path.join(d, fn))
        data = zf.read(zf.namelist()[0], pwd=b"dissect.cobaltstrike")
        if data[:2] == b"MZ":
            continue
        for off in range(0, 1024):
            if off + 8 > len(data):
                break
            sz = struct.unpack("<I", _x(data[off : off + 4], data[off + 4 : off + 8]))[0]
            if sz + off + 8 == len(data):
                plain = decode(data, off)
                if plain[:2] == b"MZ" or b"MZ" in plain[:64]:
                    ok += 1
                    break
    assert ok >= 1, "no XorEncoded sample decoded to a PE image"
