"""Pure-Python AES-128 (FIPS-197) with CBC mode and HMAC-SHA256 via hashlib; the oracle for C05/C07.

Written from the standard, not from pycryptodome; validated at setup against FIPS-197 and SP 800-38A vectors.
"""

from __future__ import annotations

import hashlib
import hmac as _hmac


def _xtime(a):
    return ((a << 1) ^ 0x1B) & 0xFF if a & 0x80 else a << 1


def _build_sbox():
    # multiplicative inverse in GF(2^8) followed by the affine transform
    exp, log = [0] * 512, [0] * 256
    x = 1
    for i in range(255):
        exp[i] = x
        log[x] = i
        x ^= _xtime(x)  # multiply by 3
    for i in range(255, 512):
        exp[i] = exp[i - 255]
    sbox = [0] * 256
    for a in range(256):
        inv = 0 if a == 0 else exp[255 - log[a]]
        s = inv
        for _ in range(4):
            inv = ((inv << 1) | (inv >> 7)) & 0xFF
            s ^= inv
        sbox[a] = s ^ 0x63
    return sbox


SBOX = _build_sbox()
INV_SBOX = [0] * 256
for _i, _s in enumerate(SBOX):
    INV_SBOX[_s] = _i


def _mul(a, b):
    r = 0
    while b:
        if b & 1:
            r ^= a
        a = _xtime(a)
        b >>= 1
    return r


def expand_key(key: bytes):
    assert len(key) == 16
    w = [list(key[i : i + 4]) for i in range(0, 16, 4)]
    rcon = 1
    for i in range(4, 44):
        t = list(w[i - 1])
        if i % 4 == 0:
            t = t[1:] + t[:1]
            t = [SBOX[b] for b in t]
            t[0] ^= rcon
            rcon = _xtime(rcon)
        w.append([a ^ b for a, b in zip(w[i - 4], t)])
    return [sum(w[4 * r : 4 * r + 4], []) for r in range(11)]


def _add(s, k):
    return [a ^ b for a, b in zip(s, k)]


def _shift(s):
    return [s[(i + 4 * (i % 4)) % 16] for i in range(16)]


def _inv_shift(s):
    return [s[(i - 4 * (i % 4)) % 16] for i in range(16)]


def _mix(s, m):
    out = []
    for c in range(4):
        col = s[4 * c : 4 * c + 4]
        for r in range(4):
            out.append(_mul(col[0], m[(0 - r) % 4]) ^ _mul(col[1], m[(1 - r) % 4]) ^ _mul(col[2], m[(2 - r) % 4]) ^ _mul(col[3], m[(3 - r) % 4]))
    return out


def encrypt_block(rk, block: bytes) -> bytes:
    s = _add(list(block), rk[0])
    for r in range(1, 10):
        s = _add(_mix(_shift([SBOX[b] for b in s]), (2, 3, 1, 1)), rk[r])
    return bytes(_add(_shift([SBOX[b] for b in s]), rk[10]))


def decrypt_block(rk, block: bytes) -> bytes:
    s = _add(list(block), rk[10])
    for r in range(9, 0, -1):
        s = _mix(_add([INV_SBOX[b] for b in _inv_shift(s)], rk[r]), (14, 11, 13, 9))
    return bytes(_add([INV_SBOX[b] for b in _inv_shift(s)], rk[0]))


def cbc_encrypt(key: bytes, iv: bytes, data: bytes) -> bytes:
    assert len(data) % 16 == 0 and len(iv) == 16
    rk = expand_key(key)
    out, prev = b"", iv
    for i in range(0, len(data), 16):
        prev = encrypt_block(rk, bytes(a ^ b for a, b in zip(data[i : i + 16], prev)))
        out += prev
    return out


def cbc_decrypt(key: bytes, iv: bytes, data: bytes) -> bytes:
    assert len(data) % 16 == 0 and len(iv) == 16
    rk = expand_key(key)
    out, prev = b"", iv
    for i in range(0, len(data), 16):
        blk = data[i : i + 16]
        out += bytes(a ^ b for a, b in zip(decrypt_block(rk, blk), prev))
        prev = blk
    return out


def cs_pad(data: bytes) -> bytes:
    """Cobalt Strike pads with 'A' up to the next block boundary, always adding 1..16 bytes."""
    return data + b"A" * (16 - len(data) % 16)


def sign(hmac_key: bytes, ciphertext: bytes) -> bytes:
    return _hmac.new(hmac_key, ciphertext, hashlib.sha256).digest()[:16]


def encrypt_packet(plaintext: bytes, aes_key: bytes, hmac_key: bytes, iv: bytes = b"abcdefghijklmnop"):
    ct = cbc_encrypt(aes_key, iv, cs_pad(plaintext))
    return ct, sign(hmac_key, ct)


def derive_keys(aes_rand: bytes):
    d = hashlib.sha256(aes_rand).digest()
    return d[:16], d[16:]


def selftest():
    # FIPS-197 Appendix C.1
    k = bytes.fromhex("000102030405060708090a0b0c0d0e0f")
    pt = bytes.fromhex("00112233445566778899aabbccddeeff")
    ct = bytes.fromhex("69c4e0d86a7b0430d8cdb78070b4c55a")
    rk = expand_key(k)
    assert encrypt_block(rk, pt) == ct and decrypt_block(rk, ct) == pt
    # FIPS-197 Appendix B
    k2 = bytes.fromhex("2b7e151628aed2a6abf7158809cf4f3c")
    assert encrypt_block(expand_key(k2), bytes.fromhex("3243f6a8885a308d313198a2e0370734")) == bytes.fromhex("3925841d02dc09fbdc118597196a0b32")
    # SP 800-38A F.2.1 CBC-AES128.Encrypt
    iv = bytes.fromhex("000102030405060708090a0b0c0d0e0f")
    p = bytes.fromhex("6bc1bee22e409f96e93d7e117393172aae2d8a571e03ac9c9eb76fac45af8e5130c81c46a35ce411e5fbc1191a0a52eff69f2445df4f9b17ad2b417be66c3710")
    c = bytes.fromhex("7649abac8119b246cee98e9b12e9197d5086cb9b507219ee95db113a917678b273bed6b8e3c1743b7116e69e222295163ff1caa1681fac09120eca307586e1a7")
    assert cbc_encrypt(k2, iv, p) == c and cbc_decrypt(k2, iv, c) == p
    # RFC 4231 test case 2 (HMAC-SHA256), truncated to 16 bytes as Cobalt Strike does
    assert sign(b"Jefe", b"what do ya want for nothing?") == bytes.fromhex("5bdcc146bf60754e6a042426089575c7")
    assert cs_pad(b"") == b"A" * 16 and cs_pad(b"x" * 16) == b"x" * 16 + b"A" * 16 and cs_pad(b"x" * 15) == b"x" * 15 + b"A"
