"""Harness seam for the profile checks: memoise lark's Reconstructor per parser.

C2Profile.as_text()/as_dict() build `Reconstructor(c2profile_parser)` on every call; its first use compiles the
reconstruction grammar (~60 ms), which dominates everything else. The object is stateless with respect to the trees
it prints, so the bulk exploration memoises it (30x faster); each profile check also runs an un-memoised
cross-check subset so that the real construction path is exercised too.
"""

from lark.reconstruct import Reconstructor as _Real

_cache = {}


def _cached(parser, *a, **k):
    key = (id(parser), a, tuple(sorted(k.items())))
    if key not in _cache:
        _cache[key] = _Real(parser, *a, **k)
    return _cache[key]


def install(cached: bool = True):
    from dissect.cobaltstrike import c2profile

    c2profile.Reconstructor = _cached if cached else _Real
    return c2profile
