"""setup_cmd: validate the reference models against ground truth that does not come from the library."""
import importlib
import pkgutil
import sys
import time


def main():
    import vmc.ref as refpkg

    t0 = time.time()
    n = 0
    for m in pkgutil.iter_modules(refpkg.__path__):
        mod = importlib.import_module(f"vmc.ref.{m.name}")
        if hasattr(mod, "selftest"):
            mod.selftest()
            n += 1
            print(f"selftest ok: vmc.ref.{m.name}")
    print(f"selftest: {n} reference models validated in {time.time()-t0:.1f}s")
    return 0


if __name__ == "__main__":
    sys.exit(main())
