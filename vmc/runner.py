"""Parallel runner, evidence writer, replay and known-findings plumbing shared by every check.

A check module (vmc/checks/cNN.py) provides

    ID, LEVEL, RULE, ASSUMPTIONS
    plan(tier, seed)            -> list of chunk descriptors (small picklable dicts with a unique "key" and an
                                   optional "cost" hint); together the chunks partition the explored space
    run_chunk(chunk, acc)       -> explores one chunk exhaustively against the real library, recording into `acc`
    replay(case)                -> re-executes ONE recorded case with no explorer; returns a dict with at least
                                   {"ok": bool, "expected": ..., "observed": ...}
    finish(summary)  (optional) -> post-merge hook (e.g. coverage requirements over the whole run)

The runner forks long-lived workers once, hands chunks out largest-first, merges results in plan order (so the
reported violation never depends on scheduling), writes /verif/evidence/<ID>.json, and turns violations into
replay artefacts. Before a violation is reported it is replayed twice in a fresh interpreter and must reproduce
identically; otherwise the run aborts as a harness error (exit 2, no VIOLATION line).
"""

from __future__ import annotations

import collections
import hashlib
import importlib
import io
import json
import logging
import multiprocessing as mp
import os
import random
import signal
import subprocess
import sys
import time
import traceback

VERIF = os.path.dirname(os.path.dirname(os.path.abspath(__file__)))
# (VERIF_EVIDENCE_DIR / VERIF_REPLAY_DIR are only used by tools/run_seeded.py so that runs against deliberately broken
# trees never overwrite the evidence of the registered checks)
EVIDENCE_DIR = os.environ.get("VERIF_EVIDENCE_DIR") or os.path.join(VERIF, "evidence")
REPLAY_DIR = os.environ.get("VERIF_REPLAY_DIR") or os.path.join(VERIF, "replays")
KNOWN_FINDINGS = os.path.join(VERIF, "known_findings.json")
SCHEMA = "/root/.vp/EVIDENCE.schema.json"
NPROC = int(os.environ.get("VERIF_NPROC", "0")) or min(16, os.cpu_count() or 1)

_DEFAULT_BUFFER_SIZE = io.DEFAULT_BUFFER_SIZE


# ----------------------------------------------------------------------------------------------------------------
# helpers available to checks
# ----------------------------------------------------------------------------------------------------------------


def hx(b):
    return None if b is None else bytes(b).hex()


def unhx(s):
    return None if s is None else bytes.fromhex(s)


def lcg(n: int, seed: int = 1) -> bytes:
    """Deterministic filler bytes (never used to *select* cases, only as data outside the property)."""
    out = bytearray()
    x = (seed * 2654435761 + 12345) & 0x7FFFFFFF
    for _ in range(n):
        x = (x * 1103515245 + 12345) & 0x7FFFFFFF
        out.append((x >> 16) & 0xFF)
    return bytes(out)


def h64(obj) -> int:
    """Process-independent 64-bit hash of a JSON-able / repr-able object."""
    if not isinstance(obj, (bytes, bytearray)):
        obj = repr(obj).encode("utf-8", "backslashreplace")
    return int.from_bytes(hashlib.blake2b(obj, digest_size=8).digest(), "big")


class Hang(BaseException):
    """Raised by the watchdog; a BaseException so that `except Exception` in the library cannot swallow it."""


class watchdog:
    """`with watchdog(seconds):` raises Hang in the running code if the block does not finish in time."""

    def __init__(self, seconds: float):
        self.seconds = seconds

    def _fire(self, signum, frame):
        raise Hang(f"no result after {self.seconds}s")

    def __enter__(self):
        self._old = signal.signal(signal.SIGALRM, self._fire)
        signal.setitimer(signal.ITIMER_REAL, self.seconds)
        return self

    def __exit__(self, *exc):
        signal.setitimer(signal.ITIMER_REAL, 0)
        signal.signal(signal.SIGALRM, self._old)
        return False


def reset_environment(seed: int = 0):
    """Re-initialise the module-level mutable state the library reads (called before every chunk)."""
    io.DEFAULT_BUFFER_SIZE = _DEFAULT_BUFFER_SIZE
    random.seed(seed)
    logging.disable(logging.CRITICAL)


class ChunkAbort(BaseException):
    """Raised by Acc.fail once a chunk has recorded MAX_FAILS violations: a tree that is broken this badly needs no
    further exploration of the chunk (and broken code is often pathologically slow)."""


class Acc:
    """Per-chunk accumulator. All counts are measured here, nothing is a constant."""

    MAX_KEEP_PER_SIG = 3
    MAX_FAILS = 400

    def __init__(self, key: str, tier: str, seed: int):
        self.key = key
        self.tier = tier
        self.seed = seed
        self.evaluations = 0
        self._nt = set()
        self._outcomes = set()
        self.states = 0
        self.transitions = 0
        self.traces = 0
        self.violations = []  # kept examples
        self.sigcount = collections.Counter()
        self.samples = []
        self.counters = collections.Counter()
        self.exhaustive = True
        self.notes = []

    # -- recording -------------------------------------------------------------------------------------------
    def case(self, key, nontrivial: bool = True, outcome=None):
        """Record one executed case. `key` identifies the case inside the chunk (any hashable)."""
        self.evaluations += 1
        if nontrivial:
            self._nt.add(key if isinstance(key, int) else hash(key))
        if outcome is not None:
            if len(self._outcomes) < 20000:
                self._outcomes.add(outcome if isinstance(outcome, int) else h64(outcome))

    def bulk(self, evaluations: int, nontrivial_distinct: int, outcomes=()):
        """Record a block of cases that the caller enumerated as distinct by construction (itertools.product)."""
        self.evaluations += evaluations
        self.counters["_bulk_nt"] += nontrivial_distinct
        for o in outcomes:
            if len(self._outcomes) < 20000:
                self._outcomes.add(o if isinstance(o, int) else h64(o))

    def fail(self, sig: str, case, expected=None, observed=None, note: str = ""):
        self.sigcount[sig] += 1
        if sum(1 for v in self.violations if v["signature"] == sig) < self.MAX_KEEP_PER_SIG:
            self.violations.append(
                {"signature": sig, "case": case, "expected": expected, "observed": observed, "note": note}
            )
        if sum(self.sigcount.values()) >= self.MAX_FAILS:
            self.capped(f"chunk {self.key} stopped after {self.MAX_FAILS} violations")
            raise ChunkAbort()

    def sample(self, obj):
        if len(self.samples) < 2:
            self.samples.append(obj)

    def count(self, name: str, n: int = 1):
        self.counters[name] += n

    def capped(self, why: str):
        self.exhaustive = False
        self.notes.append(why)

    # -- export ----------------------------------------------------------------------------------------------
    def export(self):
        if self.evaluations == 0 and self.sigcount:
            # a chunk that counts its cases in bulk at the end and was stopped early (ChunkAbort): every recorded
            # violation came from an executed case
            self.evaluations = max(self.transitions, sum(self.sigcount.values()))
            self.counters["_bulk_nt"] += self.evaluations
        if self.evaluations and not self.states:
            self.states = 1  # (stopped before the chunk counted the state it was exploring)
        if self.evaluations and not self.transitions:
            self.transitions = self.evaluations
        return {
            "key": self.key,
            "evaluations": self.evaluations,
            "nontrivial": len(self._nt) + self.counters.pop("_bulk_nt", 0),
            "outcomes": sorted(self._outcomes)[:20000],
            "states": self.states,
            "transitions": self.transitions,
            "traces": self.traces,
            "violations": json.loads(json.dumps(self.violations, default=_json_default)),
            "sigcount": dict(self.sigcount),
            "samples": json.loads(json.dumps(self.samples, default=_json_default)),
            "counters": dict(self.counters),
            "exhaustive": self.exhaustive,
            "notes": self.notes,
        }


# ----------------------------------------------------------------------------------------------------------------
# worker side
# ----------------------------------------------------------------------------------------------------------------

_W = {}


def _init(modname, tier, seed):
    _W["mod"] = importlib.import_module(modname)
    _W["tier"] = tier
    _W["seed"] = seed
    signal.signal(signal.SIGINT, signal.SIG_IGN)


def _work(item):
    idx, chunk = item
    mod = _W["mod"]
    acc = Acc(chunk["key"], _W["tier"], _W["seed"])
    reset_environment(_W["seed"])
    t0 = time.time()
    try:
        mod.run_chunk(chunk, acc)
    except ChunkAbort:
        pass
    except Hang as e:  # a hang outside a per-case watchdog is a harness problem
        return idx, {"key": chunk["key"], "harness_error": f"Hang escaped run_chunk: {e}"}
    except BaseException:
        return idx, {"key": chunk["key"], "harness_error": traceback.format_exc()}
    finally:
        reset_environment(_W["seed"])
    out = acc.export()
    out["wall_s"] = time.time() - t0
    return idx, out


# ----------------------------------------------------------------------------------------------------------------
# parent side
# ----------------------------------------------------------------------------------------------------------------


def _preload_library():
    for name in ("beacon", "c2", "c_c2", "c2profile", "client", "pe", "xordecode", "guardrails", "artifact", "utils", "version", "pcap"):
        try:
            importlib.import_module("dissect.cobaltstrike." + name)
        except Exception:  # an import error surfaces in the chunk that needs the module
            pass


def load_known_findings():
    try:
        with open(KNOWN_FINDINGS) as f:
            return json.load(f)
    except FileNotFoundError:
        return []


def _validate_evidence(path):
    """Validate against the official schema with jsonschema (tooling venv) when available, else structurally."""
    code = (
        "import json,sys,jsonschema;"
        "jsonschema.validate(json.load(open(sys.argv[1])), json.load(open(sys.argv[2])))"
    )
    for py in ("python3-vt", "/opt/veriftools/pyvenv/bin/python"):
        try:
            r = subprocess.run([py, "-c", code, path, SCHEMA], capture_output=True, text=True, timeout=60)
        except (FileNotFoundError, subprocess.TimeoutExpired):
            continue
        if r.returncode != 0:
            raise RuntimeError("evidence does not validate: " + r.stderr[-2000:])
        return "jsonschema"
    ev = json.load(open(path))
    for k in ("property_id", "tier", "seed", "level", "coverage", "wall_s"):
        assert k in ev, k
    cov = ev["coverage"]
    assert cov["evaluations"] >= 1 and cov["distinct_nontrivial"] >= 2 and cov["samples"], "coverage too thin"
    return "structural"


def run_check(mod, tier: str, seed: int, only: str = None) -> int:
    t0 = time.time()
    pid = mod.ID
    chunks = list(mod.plan(tier, seed))
    if only:
        chunks = [c for c in chunks if only in c["key"]]
    keys = [c["key"] for c in chunks]
    assert len(set(keys)) == len(keys), "chunk keys must be unique (they make cases distinct across chunks)"
    order = sorted(range(len(chunks)), key=lambda i: -chunks[i].get("cost", 1))
    results = [None] * len(chunks)
    nproc = min(NPROC, max(1, len(chunks)))
    ctx = mp.get_context("fork")
    # Every chunk runs in a freshly forked worker (maxtasksperchild=1): module-level state of the library can leak
    # between the cases of ONE chunk (that is the history the chunk explores, and the chunk is its replay) but never
    # between chunks, so a violation never depends on which chunks a worker happened to run before. The library is
    # imported here, before forking, so that workers start from the pristine import-time state at no cost.
    _preload_library()
    try:
        with ctx.Pool(nproc, initializer=_init, initargs=(mod.__name__, tier, seed), maxtasksperchild=1) as pool:
            for idx, res in pool.imap_unordered(_work, [(i, chunks[i]) for i in order], chunksize=1):
                results[idx] = res
    except Exception:
        sys.stderr.write(f"HARNESS-ERROR property={pid}: worker pool failed\n{traceback.format_exc()}\n")
        return 2
    harness_errors = [r for r in results if "harness_error" in r]
    if harness_errors:
        for r in harness_errors[:3]:
            sys.stderr.write(f"HARNESS-ERROR property={pid} chunk={r['key']}\n{r['harness_error']}\n")
        return 2

    if os.environ.get("VERIF_PROFILE"):
        for r in sorted(results, key=lambda r: -r.get("wall_s", 0))[:12]:
            sys.stderr.write(f"  profile {r['key']}: {r['wall_s']:.1f}s evals={r['evaluations']}\n")

    # ---- merge in plan order -----------------------------------------------------------------------------------
    tot = collections.Counter()
    counters = collections.Counter()
    outcomes = set()
    samples = []
    violations = []
    sigcount = collections.Counter()
    exhaustive = True
    notes = []
    for r in results:
        for k in ("evaluations", "nontrivial", "states", "transitions", "traces"):
            tot[k] += r[k]
        counters.update(r["counters"])
        outcomes.update(r["outcomes"])
        if r["samples"] and len(samples) < 8:
            samples.append(r["samples"][0])
        for v in r["violations"]:
            v["_chunk"] = r["key"]
        violations.extend(r["violations"])
        sigcount.update(r["sigcount"])
        exhaustive = exhaustive and r["exhaustive"]
        notes.extend(r["notes"])
    summary = {
        "tier": tier,
        "seed": seed,
        "totals": dict(tot),
        "counters": dict(counters),
        "distinct_outcomes": len(outcomes),
        "violations": violations,
        "sigcount": sigcount,
        "exhaustive": exhaustive,
        "notes": notes,
        "chunks": len(chunks),
    }
    if hasattr(mod, "finish"):
        mod.finish(summary)  # may append violations / notes (e.g. coverage requirements)
        violations = summary["violations"]
        sigcount = summary["sigcount"]

    # ---- violations -> known findings / replay artefacts --------------------------------------------------------
    known = [k for k in load_known_findings() if k.get("property") == pid]
    open_sigs = {k["signature"]: k for k in known if k.get("status") == "open"}
    by_sig = collections.OrderedDict()
    for v in violations:
        by_sig.setdefault(v["signature"], []).append(v)
    for sig in sigcount:
        by_sig.setdefault(sig, [])
    lines = []
    new_violations = 0
    for sig, vs in by_sig.items():
        if sig in open_sigs:
            lines.append(f"KNOWN-FINDING: property={pid} {sig}: {open_sigs[sig].get('what', '')} (cases={sigcount[sig]})")
            continue
        new_violations += 1
        v = vs[0] if vs else {"signature": sig, "case": None, "expected": None, "observed": None, "note": "raised by finish()"}
        path = write_replay(mod, v)
        if v["case"] is not None:
            ok = confirm_replay(path)
            if not ok:
                # The single case does not fail in a fresh interpreter: the failure may need the cases that ran before
                # it (state leaking between calls). Re-run the whole chunk in a fresh interpreter; if the same
                # signature recurs there (twice, identically) the violation is real and the chunk is its replay.
                chunk = next((c for c in chunks if c["key"] == v.get("_chunk")), None)
                if chunk is not None:
                    hv = dict(v, case={"kind": "__chunk__", "chunk": chunk, "tier": tier, "seed": seed, "failing_case": v["case"]}, note=(v.get("note", "") + " [history-dependent: fails only after the preceding cases of its chunk]").strip())
                    path = write_replay(mod, hv)
                    ok = confirm_replay(path)
                if not ok:
                    sys.stderr.write(f"HARNESS-ERROR property={pid}: violation {sig} did not reproduce identically on replay: {path}\n")
                    return 2
                sys.stderr.write(f"  signature={sig}: reproduces only with the preceding cases of chunk {chunk['key']}\n")
        lines.append(f"VIOLATION property={pid} replay={path}")
        sys.stderr.write(f"  signature={sig} cases={sigcount.get(sig, len(vs))} note={v.get('note', '')}\n")
    for sig, k in open_sigs.items():
        if sig not in by_sig:
            lines.append(f"NOTE: property={pid} listed finding not observed in this run (tier={tier}): {sig}")

    # ---- evidence -----------------------------------------------------------------------------------------------
    wall = time.time() - t0
    level = mod.LEVEL
    cov = {
        "evaluations": tot["evaluations"],
        "distinct_nontrivial": tot["nontrivial"],
        "rule": mod.RULE,
        "samples": samples or [{"note": "no sample recorded"}],
        "exhaustive": bool(exhaustive),
        "distinct_outcomes": len(outcomes),
        "chunks": len(chunks),
        "counters": {k: v for k, v in sorted(counters.items())},
        "bounds": getattr(mod, "BOUNDS", {}).get(tier, {}),
        "known_findings_reported": sorted(s for s in by_sig if s in open_sigs),
    }
    if level == "model_checking":
        cov["states"] = tot["states"]
        cov["transitions"] = tot["transitions"]
        cov["traces_validated_against_impl"] = tot["traces"] or tot["evaluations"]
    if notes:
        cov["notes"] = sorted(set(notes))[:20]
    if tot["evaluations"] and len(outcomes) <= 1:
        cov["vacuity_warning"] = "all executions produced one outcome"
    ev = {
        "property_id": pid,
        "tier": tier,
        "seed": seed,
        "level": level,
        "coverage": cov,
        "assumptions": list(getattr(mod, "ASSUMPTIONS", [])),
        "wall_s": round(wall, 2),
        "violations": new_violations,
    }
    os.makedirs(EVIDENCE_DIR, exist_ok=True)
    evpath = os.path.join(EVIDENCE_DIR, f"{pid}.json" if not only else f"{pid}.partial.json")
    tmp = evpath + ".tmp"
    with open(tmp, "w") as f:
        json.dump(ev, f, indent=1, sort_keys=False, default=_json_default)
        f.write("\n")
    os.replace(tmp, evpath)
    try:
        _validate_evidence(evpath)
    except Exception as e:
        sys.stderr.write(f"HARNESS-ERROR property={pid}: {e}\n")
        return 2

    for line in lines:
        print(line)
    print(
        f"{pid} {tier} seed={seed}: evaluations={tot['evaluations']} distinct_nontrivial={tot['nontrivial']} "
        f"states={tot['states']} transitions={tot['transitions']} outcomes={len(outcomes)} "
        f"exhaustive={exhaustive} violations={new_violations} known={len([s for s in by_sig if s in open_sigs])} "
        f"wall={wall:.1f}s"
    )
    sys.stdout.flush()
    return 1 if new_violations else 0


def _json_default(o):
    if isinstance(o, (bytes, bytearray)):
        return {"hex": bytes(o).hex()}
    if isinstance(o, (set, frozenset)):
        return sorted(o, key=repr)
    if isinstance(o, tuple):
        return list(o)
    return repr(o)


def write_replay(mod, v) -> str:
    d = os.path.join(REPLAY_DIR, mod.ID)
    os.makedirs(d, exist_ok=True)
    v = {k: x for k, x in v.items() if k != "_chunk"}
    body = {
        "property": mod.ID,
        "check": mod.__name__,
        "signature": v["signature"],
        "case": v["case"],
        "expected": v["expected"],
        "observed": v["observed"],
        "note": v.get("note", ""),
    }
    if hasattr(mod, "standalone"):
        try:
            body["standalone"] = mod.standalone(v["case"])
        except Exception:
            pass
    blob = json.dumps(body, indent=1, sort_keys=True, default=_json_default)
    name = hashlib.sha1(blob.encode()).hexdigest()[:16] + ".json"
    path = os.path.join(d, name)
    with open(path, "w") as f:
        f.write(blob + "\n")
    return path


def confirm_replay(path) -> bool:
    """Replay twice in fresh interpreters; both must report the violation with identical output."""
    outs = []
    for _ in range(2):
        r = subprocess.run(
            [sys.executable, os.path.join(VERIF, "check"), "replay", path],
            capture_output=True,
            text=True,
            timeout=600,
            env=dict(os.environ),
        )
        outs.append((r.returncode, r.stdout))
    return outs[0] == outs[1] and outs[0][0] == 1


def replay_file(path) -> int:
    """`check replay <path>`: plain re-execution of one recorded case, no explorer. Exit 1 if it reproduces."""
    with open(path) as f:
        body = json.load(f)
    mod = importlib.import_module(body["check"])
    reset_environment(0)
    case = body["case"]
    if isinstance(case, dict) and case.get("kind") == "__chunk__":
        acc = Acc(case["chunk"]["key"], case["tier"], case["seed"])
        reset_environment(case["seed"])
        try:
            mod.run_chunk(case["chunk"], acc)
        except ChunkAbort:
            pass
        hit = [v for v in acc.violations if v["signature"] == body["signature"]]
        print(f"property={body['property']} signature={body['signature']} (chunk replay: {case['chunk']['key']})")
        print("failing case =", json.dumps(case.get("failing_case"), sort_keys=True, default=_json_default)[:3000])
        if hit:
            print("expected =", json.dumps(hit[0]["expected"], sort_keys=True, default=_json_default)[:3000])
            print("observed =", json.dumps(hit[0]["observed"], sort_keys=True, default=_json_default)[:3000])
            print(f"occurrences in chunk = {acc.sigcount[body['signature']]}")
            print("RESULT: REPRODUCED")
            return 1
        print("RESULT: property holds on this chunk (violation does not reproduce)")
        return 0
    res = mod.replay(case)
    print(f"property={body['property']} signature={body['signature']}")
    print("case     =", json.dumps(body["case"], sort_keys=True, default=_json_default)[:4000])
    print("expected =", json.dumps(res.get("expected"), sort_keys=True, default=_json_default)[:4000])
    print("observed =", json.dumps(res.get("observed"), sort_keys=True, default=_json_default)[:4000])
    if res.get("ok"):
        print("RESULT: property holds on this case (violation does not reproduce)")
        return 0
    print("RESULT: REPRODUCED")
    return 1
