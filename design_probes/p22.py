import io, time
import pebuild
from dissect.cobaltstrike import pe
bad=0; n=0; t=time.time()
for arch in ("x86","x64"):
    for elf in (0x40,0x80,0xf8,0x3f8):
        try: img = pebuild.build_pe(arch, e_lfanew=elf, magic_mz=b"MZAR", magic_pe=b"De")
        except AssertionError: print('skip', arch, hex(elf)); continue
        for fill in (0x90,0x00,0xcc,0x41):
            for plen in list(range(0,70))+[100,500,900,959,960,961,1000,1023,1024]:
                n+=1
                f = io.BytesIO(bytes([fill])*plen+img+b"AP")
                got = (pe.find_mz_offset(f), pe.find_architecture(f), pe.find_compile_stamps(f), pe.find_magic_mz(f), pe.find_magic_pe(f), pe.find_stage_prepend_append(f))
                exp = (plen, arch, (0x5FA0B201,0x5FA0B264), b"MZAR", b"De", (bytes([fill])*plen or None, b"AP"))
                if got!=exp:
                    bad+=1
                    if bad<12: print(arch,hex(elf),hex(fill),plen,got)
print(n,bad,time.time()-t)
