from dissect.cobaltstrike import c2profile
src = r'''
set sleeptime "1";
set sleeptime "2";
http-config { set headers "a, b"; header "X" "y"; header "X" "z"; set trust_x_forwarded_for "true"; }
https-certificate { set CN "a"; set O "b"; }
https-certificate "v1" { set CN "c"; }
code-signer { set keystore "k"; set alias "a"; }
http-stager { set uri_x86 "/a"; client { header "H" "v"; parameter "p" "q"; } server { header "S" "v"; output { prepend "x"; print; } } }
http-get { set uri "/g"; set verb "GET"; client { header "A" "b"; parameter "p" "q"; metadata { base64; prepend "a\x00"; header "Cookie"; } } server { header "S" "1"; output { mask; base64url; prepend "pp"; append "aa"; print; } } }
http-get "var" { set uri "/v"; client { metadata { netbios; parameter "m"; } } }
http-get "default" { set uri "/d"; }
http-post { set uri "/p"; client { id { netbiosu; uri-append; } output { print; } } server { output { print; } } }
stage { set userwx "false"; string "s1"; stringw "s2"; transform-x86 { prepend "\x90"; strrep "a" "b"; append "z"; } transform-x64 { strrep "c" "d"; } beacon_gate { Core; ExitThread; } }
process-inject { set allocator "x"; transform-x86 { prepend "\x90"; append "q"; } transform-x64 { prepend "\x91"; } execute { CreateThread "a!b"; CreateThread; NtQueueApcThread-s; } disable "x"; }
post-ex { set spawnto_x86 "a\\b"; }
dns-beacon { set dns_idle "1.2.3.4"; set get_A "a."; }
http-beacon { set library "wininet"; }
stage { }
'''
p = c2profile.C2Profile.from_text(src)
for k,v in p.as_dict().items(): print(repr(k), v)
