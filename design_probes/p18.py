import zipfile, io
from dissect.cobaltstrike import beacon, c2profile
for name in ["4f571c0bc97c20eefc58fa3faf32148d","1897a6cdf17271807bd6ec7c60fffea3","3fdf92571d10485b05904e35c635c655","37882262c9b5e971067fd989b26afe28"]:
    zf = zipfile.ZipFile(f'/repo/tests/beacons/{name}.bin.zip')
    data = zf.read(f'{name}.bin', pwd=b'dissect.cobaltstrike')
    bc = beacon.BeaconConfig.from_bytes(data, xor_keys=[b"\x69", b"\x2e", b"\xaf", b"\xcc"])
    print(name, bc.settings["SETTING_C2_RECOVER"])
    p = c2profile.C2Profile.from_beacon_config(bc)
    print(p.as_dict().get("http-get.server.output"))
