import io, itertools, struct
from dissect.cobaltstrike.xordecode import XorEncodedFile
from dissect.cobaltstrike.utils import xor

def encode(plain, nonce, stub=b""):
    # | stub | nonce | size^nonce | enc...
    out = bytearray(stub)
    out += nonce
    out += xor(struct.pack("<I", len(plain)), nonce)
    prev = nonce
    enc = bytearray()
    for i in range(0, len(plain), 4):
        chunk = plain[i:i+4]
        c = xor(chunk, prev[:len(chunk)])
        enc += c
        prev = c
    return bytes(out+enc)

plain = bytes(range(1, 12))  # 11 bytes
nonce = b"\xde\xad\xbe\xef"
stub = b"\x90\x90\x90"
raw = encode(plain, nonce, stub)
xf = XorEncodedFile(io.BytesIO(raw), nonce_offset=len(stub))
xf.seek(0)
print(xf.read() == plain, xf.tell())
ops = [("seek",i,0) for i in range(0,14)] + [("read",n) for n in (0,1,2,3,4,5,-1,20)] + [("seekc",d) for d in (-3,-1,1,3)] + [("seeke",d) for d in (0,-1,-5)]
bad = {}
import collections
cnt=0
for seq in itertools.product(ops, repeat=2):
    xf = XorEncodedFile(io.BytesIO(raw), nonce_offset=len(stub)); xf.seek(0)
    ref = io.BytesIO(plain)
    ok=True
    trace=[]
    for op in seq:
        if op[0]=="seek":
            xf.seek(op[1]); ref.seek(op[1])
        elif op[0]=="seekc":
            if ref.tell()+op[1] < 0: break
            xf.seek(op[1],1); ref.seek(op[1],1)
        elif op[0]=="seeke":
            xf.seek(op[1],2); ref.seek(op[1],2)
        else:
            a=xf.read(op[1]); b=ref.read(op[1])
            trace.append((op,a,b))
            if a!=b: ok=False
        if xf.tell()!=ref.tell():
            ok=False
            trace.append((op,'tell',xf.tell(),ref.tell()))
        if not ok: break
    cnt+=1
    if not ok:
        k=tuple(o[0]+str(o[1]) if o[0]=='read' else o[0] for o in seq)
        bad.setdefault(k,(seq,trace))
print(cnt,len(bad))
for k,v in list(bad.items())[:40]: print(k,v)
