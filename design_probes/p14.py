from dissect.cobaltstrike import c2profile
P = c2profile.c2profile_parser
print(len(P.rules), len(P.terminals))
from collections import defaultdict
by = defaultdict(list)
for r in P.rules:
    by[r.origin.name].append(r)
for k,v in list(by.items())[:6]:
    print(k, len(v))
    for r in v[:4]: print('   ', r.alias, [ (s.name, s.is_term) for s in r.expansion], r.options.keep_all_tokens if r.options else None)
tn = {t.name: t.pattern for t in P.terminals}
print({k: (type(v).__name__, v.value) for k,v in list(tn.items())[:12]})
print(sum(1 for r in P.rules if r.alias), 'aliased rules')
print(sorted(by.keys(), key=str))
