import io, itertools
from dissect.cobaltstrike import utils

def ref(h, n, start=0):
    out=[]; i=h.find(n,start)
    while i!=-1:
        out.append(i); i=h.find(n,i+1)
    return out

bad=0; total=0
first={}
for bufsize in (1,2,3,4,5,8):
    io.DEFAULT_BUFFER_SIZE=bufsize
    for hl in range(0,7):
        for h in itertools.product(b"\x00a", repeat=hl):
            h=bytes(h)
            for nl in range(1,4):
                for n in itertools.product(b"\x00a", repeat=nl):
                    n=bytes(n)
                    total+=1
                    got=list(utils.iter_find_needle(io.BytesIO(h), n, start_offset=0))
                    exp=ref(h,n)
                    if got!=exp:
                        bad+=1
                        k=(bufsize,nl, n[0]==0)
                        if k not in first:
                            first[k]=(h,n,got,exp)
print(total,bad)
for k,v in sorted(first.items()): print(k,v)
