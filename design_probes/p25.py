"""C11: builder API vs parsed text for a range of block kinds; cache tracking after modification."""
from dissect.cobaltstrike import c2profile as cp
cases = []
# (source text, builder lambda)
def b1():
    p = cp.C2Profile(); p.set_option("sleeptime","1"); p.set_option("sleeptime","2"); return p
cases.append(('set sleeptime "1"; set sleeptime "2";', b1))
def b2():
    p = cp.C2Profile(); p.set_config_block("http_config", cp.HttpConfigBlock(headers="a, b", header=[("X","y"),("X","z")], trust_x_forwarded_for="true")); return p
cases.append(('http-config { set headers "a, b"; header "X" "y"; header "X" "z"; set trust_x_forwarded_for "true"; }', b2))
def b3():
    p = cp.C2Profile(); p.set_config_block("http_stager", cp.HttpStagerBlock(uri_x86="/a", client=cp.HttpOptionsBlock(header=[("H","v")], parameter=[("p","q")]), server=cp.HttpOptionsBlock(header=[("S","v")], output=cp.DataTransformBlock(steps=[("prepend", b"x"), "print"])))); return p
cases.append(('http-stager { set uri_x86 "/a"; client { header "H" "v"; parameter "p" "q"; } server { header "S" "v"; output { prepend "x"; print; } } }', b3))
def b4():
    p = cp.C2Profile(); p.set_config_block("stage", cp.StageBlock(userwx="false", string="s1", stringw="s2", transform_x86=cp.StageTransformBlock(prepend=b"\x90", strrep=[("a","b")], append="z"), beacon_gate=cp.BeaconGateBlock(core=True, exitthread=True, virtualprotextex=True))); return p
cases.append(('stage { set userwx "false"; string "s1"; stringw "s2"; transform-x86 { prepend "\\x90"; strrep "a" "b"; append "z"; } beacon_gate { Core; ExitThread; VirtualProtectEx; } }', b4))
def b5():
    p = cp.C2Profile(); p.set_config_block("http_post", cp.HttpPostBlock(uri="/p", client=cp.HttpOptionsBlock(id=cp.DataTransformBlock(steps=["netbiosu","uri-append"]), output=cp.DataTransformBlock(steps=["print"])))); return p
cases.append(('http-post { set uri "/p"; client { id { netbiosu; uri-append; } output { print; } } }', b5))
def b6():
    p = cp.C2Profile(); p.set_config_block("dns_beacon", cp.DnsBeaconBlock(dns_idle="1.2.3.4", get_a="a.")); p.set_config_block("post_ex", cp.PostExBlock(spawnto_x86="a")); p.set_config_block("http_beacon", cp.HttpBeaconBlock(library="wininet")); return p
cases.append(('dns-beacon { set dns_idle "1.2.3.4"; set get_A "a."; } post-ex { set spawnto_x86 "a"; } http-beacon { set library "wininet"; }', b6))
def b7():
    p = cp.C2Profile(); p.set_config_block("https_certificate", cp.ConfigBlock(common_name="a", org="b")); p.set_config_block("code_signer", cp.ConfigBlock(keystore="k", alias="a")); return p
cases.append(('https-certificate { set CN "a"; set O "b"; } code-signer { set keystore "k"; set alias "a"; }', b7))
for src, build in cases:
    a = cp.C2Profile.from_text(src)
    try:
        b = build()
        print(a.tree == b.tree, a.as_text() == b.as_text(), a.as_dict() == b.as_dict(), src[:50])
        if a.tree != b.tree: print("   parsed:", a.tree); print("   built :", b.tree)
    except Exception as e:
        print("EXC", type(e).__name__, e, src[:50])
# cache tracking
p = cp.C2Profile(); p.set_option("jitter","1"); d1 = dict(p.as_dict()); p.set_option("jitter","2"); d2 = dict(p.as_dict())
print(d1, d2)
blk = cp.StageBlock(userwx="false"); p.set_config_block("stage", blk); d3 = dict(p.as_dict()); print(d3)
# mutate block after attaching (children list shared!)
blk.set_option("cleanup","true"); print(dict(p.as_dict()))
