import struct
X86STUB = bytes.fromhex("e8000000005b"); X64STUB = bytes.fromhex("554889e54881")
def build_pe(arch="x86", compile_stamp=0x5FA0B201, export_stamp=0x5FA0B264, e_lfanew=0x80, magic_mz=b"MZRE", magic_pe=b"PE\x00\x00",
             data=b"", with_export=True, append=b"", nsections=None):
    x64 = arch=="x64"
    dos = bytearray(64)
    dos[0:len(magic_mz)] = magic_mz
    stub = X64STUB if x64 else X86STUB
    dos[len(magic_mz):len(magic_mz)+len(stub)] = stub
    struct.pack_into("<i", dos, 0x3c, e_lfanew)
    hdr = bytearray(dos) + b"\x00"*(e_lfanew-64)
    opt_size = 240 if x64 else 224
    nsec = 3
    size_of_headers = 0x400
    assert e_lfanew + 4 + 20 + opt_size + nsec*40 <= size_of_headers
    # layout: .text @0x400 size 0x200 rva 0x1000 ; .rdata @0x600 size 0x200 rva 0x2000 (export dir at +0x10) ; .data @0x800 rva 0x3000
    dlen = (len(data)+0x1ff)//0x200*0x200
    file_hdr = struct.pack("<HHIIIHH", 0x8664 if x64 else 0x14c, nsec if nsections is None else nsections, compile_stamp, 0,0, opt_size, 0x2102)
    dd = [(0,0)]*16
    if with_export: dd[0] = (0x2010, 0x28)
    ddb = b"".join(struct.pack("<II",*d) for d in dd)
    if x64:
        opt = struct.pack("<HBBIIIIIQIIHHHHHHIIIIHHQQQQII", 0x20b, 14,0, 0x200,0x400,0, 0x1000,0x1000, 0x180000000, 0x1000,0x200, 6,0,0,0,6,0,0, 0x4000+dlen, size_of_headers, 0, 2, 0, 0x100000,0x1000,0x100000,0x1000, 0, 16)
    else:
        opt = struct.pack("<HBBIIIIIIIIIHHHHHHIIIIHHIIIIII", 0x10b, 14,0, 0x200,0x400,0, 0x1000,0x1000,0x2000, 0x10000000, 0x1000,0x200, 6,0,0,0,6,0,0, 0x4000+dlen, size_of_headers, 0, 2, 0, 0x100000,0x1000,0x100000,0x1000, 0, 16)
    opt += ddb
    assert len(opt)==opt_size, (len(opt), opt_size)
    def sec(name, vsize, va, rsize, rptr): return struct.pack("<8sIIIIIIHHI", name, vsize, va, rsize, rptr, 0,0,0,0, 0x60000020)
    secs = sec(b".text",0x200,0x1000,0x200,0x400)+sec(b".rdata",0x200,0x2000,0x200,0x600)+sec(b".data",max(dlen,1),0x3000,dlen,0x800)
    hdr += magic_pe.ljust(4,b"\x00") + file_hdr + opt + secs
    hdr = hdr.ljust(size_of_headers, b"\x00")
    text = b"\xcc"*0x200
    rdata = bytearray(0x200)
    struct.pack_into("<IIHHIIIIIII", rdata, 0x10, 0, export_stamp, 0,0, 0x2040, 1, 1, 1, 0x2050,0x2054,0x2058)
    return bytes(hdr)+text+bytes(rdata)+data.ljust(dlen,b"\x00")+append
def xorencode(plain, nonce=b"\x12\x34\x56\x78", stub=b"\xfc\xe8\x90\x90\xe8\xd4\xff\xff\xff", size_ok=True, trailer=b""):
    def x(a,b): return bytes(p^q for p,q in zip(a,b))
    out = bytearray(stub)+nonce+x(struct.pack("<I", len(plain) if size_ok else len(plain)+7), nonce)
    prev=nonce
    for i in range(0,len(plain),4):
        c = x(plain[i:i+4], prev); out+=c; prev = c if len(c)==4 else c+prev[len(c):]
    return bytes(out)+trailer
