import cfg, httpx, time
from dissect.cobaltstrike import beacon, c2, client
from dissect.cobaltstrike.client import HttpBeaconClient, BeaconCommand, TaskPacket
import logging
bc = beacon.BeaconConfig(cfg.make())
log=[]
def fake_request(method, url, headers=None, params=None, content=None, verify=None):
    req = httpx.Request(method, url, headers=headers, params=params, content=content)
    m = req.method if isinstance(req.method, bytes) else req.method.encode(); raw = m+b" "+req.url.raw_path+b" HTTP/1.1\r\n"+b"".join(k+b": "+v+b"\r\n" for k,v in req.headers.raw)+b"\r\n"+req.content
    log.append(raw)
    return httpx.Response(200, content=b"", request=req)
client.httpx.request = fake_request
class Stop(BaseException): pass
class C(HttpBeaconClient):
    def __init__(self, script):
        super().__init__(); self.script=list(script); self.calls=[]
    def get_task(self):
        if not self.script: raise Stop
        cmd = self.script.pop(0)
        if cmd is None: return None
        import struct; t = TaskPacket(struct.pack(">IIII",1,8,cmd,0))
        return t
    def on_sleep(self, task): self.calls.append(("on_sleep", task.command.value))
    def on_catch_all(self, task): self.calls.append(("catch_all", task and task.command.value))
cl = C([4,4,4,5,None,4])
@cl.handle(BeaconCommand.COMMAND_SLEEP)
def h(task): cl.calls.append(("deco_sleep", task.command.value))
sleeps=[]
client.time.sleep = lambda s: sleeps.append(s)
try:
    cl.run(bc, beacon_id=1234, sleeptime=1000, jitter=50, silent=True)
except Stop: pass
print(cl.calls)
print({k:len(v) for k,v in cl.task_map.items()})
print(sleeps)
print(cl.beacon_id, cl.aes_rand.hex())
# real get_task / send_callback with fake transport
cl2 = HttpBeaconClient(); cl2.run(bc, beacon_id=1234, dry_run=True, user="u", computer="c", process="p")
print(cl2.get_task())
cl2.send_callback(client.BeaconCallback.CALLBACK_OUTPUT, b"hello")
for r in log: print(r[:200])
d = c2.C2Http(bc, rsa_private_key=cfg.KEY)
for r in log:
    print(list(d.iter_recover_http(r)))
