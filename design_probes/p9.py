import time, io
from dissect.cobaltstrike import c2, beacon
import cfg
print(c2.parse_raw_http(b"GET / HTTP/1.1\r\n\r\nbody"))
print(c2.parse_raw_http(b"GET /a;b?x=1&y=%41%2b+c HTTP/1.1\r\nA: b\r\n\r\n\r\n\r\nbody"))
print(c2.parse_raw_http(b"GET //a/b?x=1 HTTP/1.1\r\nA: b: c\r\nA: d\r\n\r\n"))
print(c2.parse_raw_http(b"HTTP/1.1 200 OK\r\n\r\n\x00\r\n\r\n"))
for bad in [b"HTTP/1.1 abc OK\r\n\r\n", b"HTTP/1.1 200\r\n\r\n", b"HTTP/1.1 \xff OK\r\n\r\n", b"GET /[ HTTP/1.1\r\n\r\n", b"GET http://[a/ HTTP/1.1\r\n\r\n", b"GET /a b HTTP/1.1\r\n\r\n", b"HTTP/1.1 200 Not Found\r\n\r\n", b"HTTP/1.1 -5 X\r\n\r\n", b"HTTP/1.1 +5 X\r\n\r\n", b"HTTP/1.1 1_0 X\r\n\r\n", b"http/1.1 200 ok\r\n\r\n"]:
    try: print(bad, c2.parse_raw_http(bad))
    except Exception as e: print(bad, type(e).__name__, e)
# append empty
t = c2.HttpDataTransform([("BUILD","metadata"),("APPEND",b""),("PRINT",True)])
r = t.transform(c2.C2Data(metadata=b"hello")); print(r); print(t.recover(r))
t = c2.HttpDataTransform([("_PARAMETER",b"k=v"),("BUILD","metadata"),("BASE64",True),("PARAMETER",b"q")])
r = t.transform(c2.C2Data(metadata=b"hello")); print(r)
try: print(t.recover(r))
except Exception as e: print(type(e).__name__, e)
t = c2.HttpDataTransform([("BUILD","metadata"),("BASE64URL",True),("URI_APPEND",True)])
r = t.transform(c2.C2Data(metadata=b"hello"), c2.HttpRequest(b"GET", b"/x/", {}, {}, b"")); print(r); print(t.recover(r))
# timing
blk = cfg.make()
pay = b"\x00"*3000 + bytes(b^0x2e for b in blk.ljust(4096,b"\x00")) + b"\x41"*3000
t0=time.time()
for i in range(20): bc = beacon.BeaconConfig.from_bytes(pay)
print('from_bytes found', (time.time()-t0)/20)
t0=time.time()
for i in range(5):
    try: beacon.BeaconConfig.from_bytes(pay[:5000])
    except ValueError: pass
print('from_bytes notfound', (time.time()-t0)/5)
t0=time.time()
for i in range(3):
    try: beacon.BeaconConfig.from_bytes(pay[:5000], all_xor_keys=True)
    except ValueError: pass
print('from_bytes notfound allkeys', (time.time()-t0)/3)
