"""C13 sweep: single-setting deviations through from_beacon_config -> as_text -> from_text -> as_dict."""
import struct, collections, traceback
import cfg
from dissect.cobaltstrike import beacon, c2profile
T=cfg
def s(i,v): return T.short(i,v)
def n(i,v): return T.int_(i,v)
def p(i,v): return T.ptr(i,v)
specials=[b"", b"plain", b"a\\b", b"tail\\", b'q"uote', b"s'q", b"nl\nx", b"\x00mid", b"\x80\xff", b"semi;{}#", b"\\n", b'\\"', b"\\x41"]
dev={}
for a in specials:
    dev[f"get prepend {a!r}"]=T.ptr(12, T.prog([("BUILD",0),("PREPEND",a),("BASE64",None),("HEADER",b"Cookie")]))
    dev[f"post prepend {a!r}"]=T.ptr(13, T.prog([("BUILD",0),("PREPEND",a),("PARAMETER",b"id"),("BUILD",1),("APPEND",a),("PRINT",None)]))
    dev[f"get hdr arg {a!r}"]=T.ptr(12, T.prog([("_HEADER",b"X: "+a),("BUILD",0),("BASE64",None),("HEADER",a or b"H")]))
    dev[f"get _param {a!r}"]=T.ptr(12, T.prog([("_PARAMETER",b"k="+a),("BUILD",0),("BASE64",None),("PARAMETER",b"q")]))
    dev[f"useragent {a!r}"]=T.ptr(9, a+b"\x00")
    dev[f"spawnto_x86 {a!r}"]=T.ptr(29, a+b"\x00")
    dev[f"submituri {a!r}"]=T.ptr(10, a+b"\x00")
    dev[f"verb {a!r}"]=T.ptr(26, a+b"\x00")
    dev[f"pi transform x86 {a!r}"]=T.ptr(46, struct.pack(">I",len(a))+a+struct.pack(">I",len(a))+a)
    dev[f"tcp frame {a!r}"]=T.ptr(58, struct.pack(">H",len(a)+4)+a+b"\0\0\0\0")
    dev[f"dns beacon {a!r}"]=T.ptr(60, a+b"\x00")
def ex(code, off=0, mod=b"", fn=b""):
    if code in (6,7): return bytes([code])+struct.pack(">H",off)+struct.pack(">I",len(mod)+1)+mod+b"\x00"+struct.pack(">I",len(fn)+1)+fn+b"\x00"
    return bytes([code])
dev["execute all"]=T.ptr(51, b"".join([ex(1),ex(2),ex(3),ex(4),ex(5),ex(6,0x10,b"ntdll",b"RtlUserThreadStart"),ex(7,0,b"kernel32.dll",b"LoadLibraryA"),ex(8)])+b"\x00")
for name,rec in {"rec mask b64 pre app":[("PRINT",None),("APPEND",3),("PREPEND",2),("BASE64",None),("MASK",None)],"rec nb":[("PRINT",None),("NETBIOSU",None),("NETBIOS",None),("BASE64URL",None)]}.items():
    dev[name]=T.ptr(11, T.recover_prog(rec))
for name,val in {"perms_i 64":s(43,64),"perms_i 4":s(43,4),"perms 64":s(44,64),"perms 32":s(44,32),"minalloc":n(45,16384),"allocator 1":s(52,1),"cleanup":s(38,1),"gargle":s(41,1),"dns idle":n(19,0x01020304),"dns sleep":n(20,5),"maxdns":s(6,251),"bof reuse":s(48,1),"bof alloc 2":s(16,2),"bof alloc 9":s(16,9),"datastore":s(76,16),"data_required":s(77,1),"dnsresolver":p(66,b"8.8.8.8\x00")}.items():
    dev[name]=val
classes=collections.defaultdict(list)
import re
def base_block(extra, drop=()):
    # rebuild base without the overridden index
    b = cfg.make()[:-2]
    # parse TLVs and drop same-index ones
    out=b""; i=0; idx=struct.unpack(">H",extra[:2])[0]
    while i < len(b):
        ix,t,l = struct.unpack(">HHH", b[i:i+6])
        if ix!=idx: out+=b[i:i+6+l]
        i+=6+l
    return out+extra+b"\x00\x00"
for name,extra in dev.items():
    try:
        bc = beacon.BeaconConfig(base_block(extra))
        prof = c2profile.C2Profile.from_beacon_config(bc)
        text = prof.as_text()
    except Exception as e:
        classes["generate: %s %s"%(type(e).__name__, str(e)[:60])].append(name); continue
    try:
        back = c2profile.C2Profile.from_text(text)
    except Exception as e:
        classes["reparse: %s"%type(e).__name__].append(name); continue
    try:
        t2 = back.as_text()
        if t2!=text: classes["not fixed point"].append(name)
        d = back.as_dict()
    except Exception as e:
        classes["as_dict/as_text after reparse: %s"%type(e).__name__].append(name); continue
    classes["ok-generated"].append((name, {k:v for k,v in d.items() if any(w in k for w in ("metadata","client.id","client.output","client.header","client.parameter","useragent","spawnto","http-post.uri","verb","transform","frame","dns","execute","server.output","process-inject","stage","http-beacon"))}))
for k,v in classes.items():
    if k!="ok-generated": print(k, len(v), v[:8])
print("----- ok cases (sample of dict fragments)")
for name,d in classes["ok-generated"]:
    print(name, "=>", d)
