"""Seams: deterministic PKCS#1 padding via Crypto.Random patch; BeaconGate vector cost; pcap gate import."""
import time, itertools
import Crypto.Random
from Crypto.PublicKey import RSA
from dissect.cobaltstrike import c2, beacon
key = RSA.generate(1024)
ctr = [0]
def det(n):
    out = bytes(((ctr[0]+i) % 255)+1 for i in range(n)); ctr[0]+=n; return out
orig = Crypto.Random.get_random_bytes
Crypto.Random.get_random_bytes = det
m = c2.BeaconMetadata(magic=0xBEEF, info=b"x")
ctr[0]=0; a = c2.encrypt_metadata(m, key.public_key())
ctr[0]=0; b = c2.encrypt_metadata(m, key.public_key())
print("deterministic ciphertext:", a==b, c2.decrypt_metadata(a, key).info)
Crypto.Random.get_random_bytes = orig
t=time.time(); n=0
for bits in itertools.islice(itertools.product((0,1), repeat=23), 20000):
    bgo = beacon.parse_beacon_gate(bytes(bits)); n+=1
print("parse_beacon_gate per call us", (time.time()-t)/n*1e6)
from dissect.cobaltstrike import pcap
cap = pcap.BeaconCapture(pcap="nonexistent.pcap")
resp = c2.HttpResponse(status=200, headers={}, reason=b"OK", body=b"junk", request=c2.HttpRequest(b"GET", b"/abcd", {}, {}, b""))
print("gate:", cap.find_staged_beacon(resp))
