import cfg, httpx, struct, hashlib, hmac, base64, time, random
from Crypto.Cipher import AES, PKCS1_v1_5
from dissect.cobaltstrike import beacon, c2, client
from dissect.cobaltstrike.client import HttpBeaconClient, BeaconCallback
from dissect.cobaltstrike.c2 import TaskPacket, CallbackPacket
# --- reference malleable codec (independent) ---
def nb_enc(d, base): return bytes(x for c in d for x in (base+(c>>4), base+(c&15)))
def nb_dec(d, base): return bytes(((d[i]-base)<<4)|(d[i+1]-base) for i in range(0,len(d),2))
def b64d(d, url):
    d = d.rstrip(b"="); d += b"="*(-len(d)%4)
    return base64.b64decode(d, altchars=b"-_" if url else None, validate=True)
def ref_decode_steps(steps, data):
    # steps in transform order: list of (op,arg); undo in reverse
    for op,arg in reversed(steps):
        if op=="APPEND": data = data[:len(data)-len(arg)] if not isinstance(arg,int) else data[:len(data)-arg]
        elif op=="PREPEND": data = data[len(arg):] if not isinstance(arg,int) else data[arg:]
        elif op=="BASE64": data = b64d(data, False)
        elif op=="BASE64URL": data = b64d(data, True)
        elif op=="NETBIOS": data = nb_dec(data, 0x61)
        elif op=="NETBIOSU": data = nb_dec(data, 0x41)
        elif op=="MASK": data = bytes(c^data[i%4] for i,c in enumerate(data[4:]))
    return data
def ref_encode_steps(steps, data, mask=b"\xde\xad\xbe\xef"):
    for op,arg in steps:
        if op=="APPEND": data += arg if not isinstance(arg,int) else b"Y"*arg
        elif op=="PREPEND": data = (arg if not isinstance(arg,int) else b"Y"*arg)+data
        elif op=="BASE64": data = base64.b64encode(data)
        elif op=="BASE64URL": data = base64.urlsafe_b64encode(data).rstrip(b"=")
        elif op=="NETBIOS": data = nb_enc(data,0x61)
        elif op=="NETBIOSU": data = nb_enc(data,0x41)
        elif op=="MASK": data = mask+bytes(c^mask[i%4] for i,c in enumerate(data))
    return data
def split_blocks(prog):
    blocks=[]; cur=None
    for op,arg in prog:
        if op=="BUILD": cur={"kind":arg,"steps":[], "term":None}; blocks.append(cur)
        elif op in ("HEADER","PARAMETER","PRINT","URI_APPEND"): cur["term"]=(op,arg)
        elif op.startswith("_"): pass
        else: cur["steps"].append((op,arg))
    return blocks
def server_extract(prog, req, base_uris):
    out={}
    for b in split_blocks(prog):
        op,arg=b["term"]
        if op=="HEADER": d=req.headers[arg]
        elif op=="PARAMETER": d=req.params[arg]
        elif op=="PRINT": d=req.body
        else:
            u=[x for x in base_uris if req.uri.startswith(x)][0]; d=req.uri[len(u):]
        out[b["kind"]]=ref_decode_steps(b["steps"], d)
    return out
def run(get, post, rec_transform_order, tasks):
    # rec_transform_order: server-side steps in transform order with int lengths; recover program = reversed + print first
    recprog=[("PRINT",None)]+[(op,arg) for op,arg in reversed(rec_transform_order)]
    bc = beacon.BeaconConfig(cfg.make(get=get, post=post, rec=recprog))
    log=[]; sent=[]
    keys={}
    def fake_request(method, url, headers=None, params=None, content=None, verify=None):
        req = httpx.Request(method, url, headers=headers, params=params, content=content)
        m = req.method if isinstance(req.method, bytes) else req.method.encode()
        raw = m+b" "+req.url.raw_path+b" HTTP/1.1\r\n"+b"".join(k+b": "+v+b"\r\n" for k,v in req.headers.raw)+b"\r\n"+req.content
        log.append(raw)
        r = c2.parse_raw_http(raw)   # NOTE probe shortcut: real harness uses ref/http.py parser
        if m==b"GET":
            md = server_extract(get, r, [b"/ptj", b"/load"])[0]
            pt = PKCS1_v1_5.new(cfg.KEY).decrypt(md, None)
            aes_rand = pt[8:24]; dg=hashlib.sha256(aes_rand).digest(); keys["aes"],keys["hmac"]=dg[:16],dg[16:]
            sent.append(("metadata", pt[24+4:24+8]))
            task = tasks.pop(0) if tasks else None
            body=b""
            if task is not None:
                tp = struct.pack(">IIII", 0x60000000, len(task[1])+8, task[0], len(task[1]))+task[1]
                padded = tp + b"A"*(16-len(tp)%16)
                ct = AES.new(keys["aes"], AES.MODE_CBC, iv=b"abcdefghijklmnop").encrypt(padded)
                sig = hmac.new(keys["hmac"], ct, "sha256").digest()[:16]
                body = ct+sig
                sent.append(("task", task))
            body = ref_encode_steps(rec_transform_order, body)
            resp = b"HTTP/1.1 200 OK\r\nContent-Length: %d\r\n\r\n"%len(body)+body
            log.append(resp)
            return httpx.Response(200, content=body, request=req)
        else:
            ex = server_extract(post, r, [b"/submit.php"])
            sent.append(("callback-id", ex[0]))
            return httpx.Response(200, content=b"", request=req)
    client.httpx.request = fake_request
    cl = HttpBeaconClient(); cl.run(bc, beacon_id=1234, dry_run=True, user="u", computer="c", process="p")
    got_tasks=[]
    for i in range(3):
        t = cl.get_task(); got_tasks.append(None if t is None else (t.command.value, t.data))
        if t is not None: cl.send_callback(BeaconCallback.CALLBACK_OUTPUT, b"result-%d"%i)
    dec = c2.C2Http(beacon.BeaconConfig(cfg.make(get=get, post=post, rec=recprog)), rsa_private_key=cfg.KEY)
    out=[]
    for raw in log:
        try:
            for p in dec.iter_recover_http(raw): out.append(type(p).__name__+":"+ (p.info.decode() if hasattr(p,'info') else repr(p.data)))
        except Exception as e: out.append("EXC %s %s"%(type(e).__name__, str(e)[:60]))
    return got_tasks, sent, out
configs = {
 "default": (None, None, []),
 "nb-param/b64url-hdr": ([("BUILD",0),("NETBIOS",None),("PREPEND",b"SESSION="),("PARAMETER",b"q")],
                [("BUILD",0),("MASK",None),("BASE64URL",None),("PREPEND",b"id="),("HEADER",b"Cookie"),("BUILD",1),("MASK",None),("NETBIOSU",None),("PRINT",None)],
                [("MASK",None),("BASE64URL",None),("PREPEND",84),("APPEND",10)]),
 "uri-append": ([("BUILD",0),("BASE64URL",None),("URI_APPEND",None)],
                [("BUILD",0),("NETBIOS",None),("URI_APPEND",None),("BUILD",1),("PRINT",None)], [("NETBIOS",None)]),
 "static-param": ([("_PARAMETER",b"k=v"),("BUILD",0),("BASE64",None),("HEADER",b"Cookie")], None, []),
}
for name,(g,p,r) in configs.items():
    try:
        res = run(g,p,r,[(32,b""),None,(53,b"\x00\x00\x00\x01.\\*")])
        print(name, res[0]); print("   sent", res[1]); print("   decoded", res[2])
    except Exception as e:
        import traceback; print(name, "EXC", type(e).__name__, e); traceback.print_exc(limit=3)
