import time
from dissect.cobaltstrike import c2profile
src = open('/repo/tests/profiles/amazon.profile').read()
t=time.time(); p = c2profile.C2Profile.from_text(src); print('parse', time.time()-t)
t=time.time(); txt = p.as_text(); print('as_text', time.time()-t)
t=time.time(); d = p.as_dict(); print('as_dict', time.time()-t)
from lark.reconstruct import Reconstructor
t=time.time(); r = Reconstructor(c2profile.c2profile_parser); print('Reconstructor()', time.time()-t)
t=time.time(); 
for i in range(20): x = list(r._reconstruct(p.tree))
print('reconstruct x20', time.time()-t)
small = c2profile.C2Profile.from_text('set jitter "1"; stage { set module_x64 "a"; set module_x86 "b"; beacon_gate { VirtualProtectEx; } }')
print(small.as_text())
print(small.as_dict())
print(small.tree)
p2 = c2profile.C2Profile.from_text(txt)
print(p2.tree == p.tree)
