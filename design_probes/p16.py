import io, struct, itertools, time
import cfg, pebuild
from dissect.cobaltstrike import beacon
HDR = b"\x00\x01\x00\x01\x00\x02\x00"
def x1(b,k): return bytes(c^k for c in b)
def ref_search(raw, view, keys):
    for v, flag in ([(view, True)] if view is not None else []) + [(raw, False)]:
        for k in keys:
            o = v.find(x1(HDR,k))
            if o!=-1: return x1(v[o:o+4096],k), bytes([k]), flag
    return None
blkA = struct.pack(">HHHH",1,1,2,8)+struct.pack(">HHHH",2,1,2,443)+b"\x00\x00"
blkB = struct.pack(">HHHH",1,1,2,0)+struct.pack(">HHHH",2,1,2,80)+b"\x00\x00"
bad=0; n=0
t=time.time()
for S in (7,16):
    io.DEFAULT_BUFFER_SIZE=S
    for k in (0x69,0x2e,0xaf):
        for o in range(0,3*S+9):
            for fill in (0x00,0xff,0x41,k):
                for padded in (True, False):
                    blk = blkA.ljust(4096,b"\x00") if padded else blkA
                    raw = bytes([fill])*o + x1(blk,k) + (bytes([fill])*5 if padded else b"")
                    for keys in (None,[bytes([k])]):
                        n+=1
                        kl = [0x69,0x2e,0x00] if keys is None else [k]
                        exp = ref_search(raw,None,kl)
                        try:
                            bc = beacon.BeaconConfig.from_bytes(raw, xor_keys=keys)
                            got = (bc.config_block, bc.xorkey, bc.xorencoded)
                        except ValueError as e:
                            got = None
                        if got!=exp:
                            bad+=1
                            if bad<6: print('MISMATCH',S,hex(k),o,hex(fill),padded,keys, got and (got[0][:12],got[1:]), exp and (exp[0][:12],exp[1:]))
print(n,bad,time.time()-t)
# decoy priority: block under 2e earlier than block under 69 -> expect 69
io.DEFAULT_BUFFER_SIZE=8192
raw = b"\x41"*10 + x1(blkB.ljust(4096,b"\0"),0x2e) + b"\x41"*10 + x1(blkA.ljust(4096,b"\0"),0x69)
bc = beacon.BeaconConfig.from_bytes(raw); print(bc.xorkey, bc.port)
# xorencoded with decoy in raw view
img = pebuild.build_pe("x86", data=x1(blkA.ljust(4096,b"\0"),0x2e))
enc = pebuild.xorencode(img) + x1(blkB.ljust(4096,b"\0"),0x69)
bc = beacon.BeaconConfig.from_bytes(enc); print(bc.xorkey, bc.xorencoded, bc.port)
