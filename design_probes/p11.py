import itertools, time
from dissect.cobaltstrike import c2profile
from lark import Token
P = c2profile.c2profile_parser
bad=[]; n=0; t=time.time()
def check(b):
    global n
    n+=1
    lit = c2profile.value_to_string(b)
    back = c2profile.string_token_to_bytes(Token("STRING", lit))
    if back != b: bad.append(("direct", b, lit, back)); return
    try:
        toks = list(P.lex("set useragent "+lit+";"))
    except Exception as e:
        bad.append(("lex", b, lit, repr(e)[:80])); return
    if [t.type for t in toks] != ["SET","OPTION","STRING","SEMICOLON"] or toks[2].value != lit:
        bad.append(("tokens", b, lit, [(t.type, t.value) for t in toks]))
for l in range(0,3):
    for tup in itertools.product(range(256), repeat=l): check(bytes(tup))
print(n, len(bad), time.time()-t)
alpha = b'"\\xu\n;{}#\'n0'
for l in range(3,5):
    for tup in itertools.product(alpha, repeat=l): check(bytes(tup))
print(n, len(bad), time.time()-t)
for b in bad[:10]: print(b)
print([ (t.type) for t in P.lex('set useragent "a";')])
