import io, os, signal, time
from dissect.cobaltstrike import beacon, guardrails
data = b"\x01\x00\x01\x00\x02\x00" + b"A"*100
for name, f in [("from_bytes", lambda: beacon.BeaconConfig.from_bytes(data))]:
    try: f()
    except Exception as e: print(name, type(e).__name__, e)
open("/dev/shm/x.bin","wb").write(data)
try: beacon.BeaconConfig.from_path("/dev/shm/x.bin")
except Exception as e: print("from_path", type(e).__name__, e)
# guard marker at offset 0
a = b"\x01\x02\x03\x04\x05\x06"; start = bytes(x^0x8a for x in guardrails.GUARD_CONFIG_STARTS[0])
b = bytes(x^y for x,y in zip(a[::-1], start))
d2 = a+b+b"Z"*50
try: beacon.BeaconConfig.from_bytes(d2)
except Exception as e: print("guard from_bytes", type(e).__name__, e)
open("/dev/shm/x.bin","wb").write(d2)
try: beacon.BeaconConfig.from_path("/dev/shm/x.bin")
except Exception as e: print("guard from_path", type(e).__name__, e)
d3 = b"Q"*6138 + d2
try: beacon.BeaconConfig.from_bytes(d3)
except Exception as e: print("guard unterminated", type(e).__name__, e)
# UA hang with watchdog
class Hang(BaseException): pass
def onalarm(*a): raise Hang()
signal.signal(signal.SIGALRM, onalarm)
blk = b"\x00\x01\x00\x01\x00\x02\x00\x08" + b"\x00\x09\x00\x03\x00\x80" + b"A"*128
signal.setitimer(signal.ITIMER_REAL, 2.0)
t=time.time()
try: beacon.BeaconConfig.from_bytes(bytes(c^0x2e for c in blk))
except Hang: print("UA: hang detected after", round(time.time()-t,1))
except Exception as e: print("UA", type(e).__name__, e)
finally: signal.setitimer(signal.ITIMER_REAL, 0)
os.remove("/dev/shm/x.bin")
