import struct
from Crypto.PublicKey import RSA
T_NONE,T_SHORT,T_INT,T_PTR=0,1,2,3
def tlv(i,t,v): return struct.pack(">HHH", i,t,len(v))+v
def short(i,v): return tlv(i,T_SHORT,struct.pack(">H",v))
def int_(i,v): return tlv(i,T_INT,struct.pack(">I",v))
def ptr(i,v,pad=None):
    if pad: v = v.ljust(pad,b"\x00")
    return tlv(i,T_PTR,v)
OPS=dict(APPEND=1,PREPEND=2,BASE64=3,PRINT=4,PARAMETER=5,HEADER=6,BUILD=7,NETBIOS=8,_PARAMETER=9,_HEADER=10,NETBIOSU=11,URI_APPEND=12,BASE64URL=13,MASK=15,_HOSTHEADER=16)
ARG={"APPEND","PREPEND","PARAMETER","HEADER","_PARAMETER","_HEADER","_HOSTHEADER"}
def prog(steps):
    out=b""
    for op,arg in steps:
        out+=struct.pack(">I",OPS[op])
        if op=="BUILD": out+=struct.pack(">I",arg)
        elif op in ARG: out+=struct.pack(">I",len(arg))+arg
    return out+struct.pack(">I",0)
def recover_prog(steps):
    out=b""
    for op,arg in steps:
        out+=struct.pack(">I",OPS[op])
        if op in ("APPEND","PREPEND"): out+=struct.pack(">I",arg)
    return out+struct.pack(">I",0)
KEY=RSA.generate(1024)
def make(get=None, post=None, rec=None, extra=b""):
    get = get or [("_HEADER",b"Accept: */*"),("BUILD",0),("BASE64",None),("HEADER",b"Cookie")]
    post = post or [("_HEADER",b"Content-Type: application/octet-stream"),("BUILD",0),("PARAMETER",b"id"),("BUILD",1),("PRINT",None)]
    rec = rec or [("PRINT",None)]
    der = KEY.public_key().export_key("DER")
    b = short(1,0)+short(2,80)+int_(3,60000)+int_(4,1048576)+short(5,10)+ptr(7,der,256)+ptr(8,b"c2.example.com,/ptj,c3.example.com,/load",256)+ptr(9,b"Mozilla/5.0",128)+ptr(10,b"/submit.php",64)
    b += ptr(11,recover_prog(rec),256)+ptr(12,prog(get),512)+ptr(13,prog(post),512)+ptr(26,b"GET",16)+ptr(27,b"POST",16)+short(31,0)+ptr(54,b"",128)+extra
    return b+b"\x00\x00"
