import zipfile, io
from dissect.cobaltstrike import beacon, guardrails, xordecode
zf = zipfile.ZipFile('/repo/tests/beacons/124552cf674b362e0c916ab79b9e7a56.bin.zip')
data = zf.read('124552cf674b362e0c916ab79b9e7a56.bin', pwd=b'dissect.cobaltstrike')
print(len(data))
import logging
b = beacon.BeaconConfig.from_bytes(data)
g = b.guardrails
print(g.beacon_config_offset, g.guard_config_offset, g.payload_xor_key, hex(g.checksum), b.xorkey, b.xorencoded)
for s in g.settings: print(s)
ug = g.unmasked_guard_config
print(ug[:64].hex(), set(ug[64:]))
cb = g.unmasked_beacon_config
# where does settings end
n = sum(6+s.length for s in b.settings_tuple)
print('settings bytes', n, 'tail set', set(cb[n:]), len(cb))
print(cb[n-8:n+40].hex())
try:
    xf = xordecode.XorEncodedFile.from_file(io.BytesIO(data)); print('xorencoded', xf.nonce_offset)
except ValueError as e: print('not xorencoded', e)
print(b.architecture, b.pe_compile_stamp, b.pe_export_stamp)
