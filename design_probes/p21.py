import re, time
from dissect.cobaltstrike import c2profile
P = c2profile.c2profile_parser
term = {t.name: t.pattern for t in P.terminals}
rules = {}
for r in P.rules: rules.setdefault(r.origin.name, []).append(r)
def tok(name):
    p = term[name]
    if name=="STRING": return '"s"'
    if name=="OPTION": return 'jitter'
    return p.value
def minimal(sym, depth=0):
    # minimal expansion of nonterminal -> list of token strings
    best=None
    for r in rules[sym]:
        out=[]; ok=True
        for s in r.expansion:
            if s.is_term: out.append(tok(s.name))
            else:
                if depth>6: ok=False; break
                m = minimal(s.name, depth+1)
                if m is None: ok=False; break
                out+=m
        if ok and (best is None or len(out)<len(best)): best=out
    return best
# contexts: for each top-level value alternative, build "kw [variant] { STATEMENT }" for each statement rule of its star rule
def expansions(sym):
    return rules[sym]
sentences=[]
def walk(prefix_tokens, suffix_tokens, sym, seen):
    for r in rules[sym]:
        if r.alias is None and sym.startswith("__"):
            # star helper: recurse into its members
            for s in r.expansion:
                if not s.is_term and s.name not in seen:
                    walk(prefix_tokens, suffix_tokens, s.name, seen|{s.name})
            continue
        toks=[]; inner=[]
        for s in r.expansion:
            if s.is_term: toks.append(tok(s.name))
            else:
                toks.append(("NT", s.name))
        # produce the sentence with minimal expansion of nonterminals
        flat=[]
        for t in toks:
            if isinstance(t, tuple):
                flat += minimal(t[1]) or []
            else: flat.append(t)
        sentences.append((sym, r.alias, prefix_tokens+flat+suffix_tokens))
        # recurse into nested star rules
        pre=[]; 
        for i,t in enumerate(toks):
            if isinstance(t, tuple) and t[1].startswith("__") and t[1] not in seen:
                before=[]; 
                for u in toks[:i]: before += (minimal(u[1]) or []) if isinstance(u, tuple) else [u]
                after=[]
                for u in toks[i+1:]: after += (minimal(u[1]) or []) if isinstance(u, tuple) else [u]
                walk(prefix_tokens+before, after+suffix_tokens, t[1], seen|{t[1]})
walk([], [], "value", {"value"})
print(len(sentences))
def scan(text):
    return re.findall(r'"(?:[^"\\]|\\.)*"|[{};]|[^\s{};"]+', text)
bad=0; t=time.time(); seen=set()
for sym, alias, toks in sentences:
    src=" ".join(toks)
    if src in seen: continue
    seen.add(src)
    try:
        p = c2profile.C2Profile.from_text(src)
        out = p.as_text()
        if scan(out)!=toks or c2profile.C2Profile.from_text(out).tree!=p.tree:
            bad+=1; print("MISMATCH", sym, alias, src, "=>", " ".join(scan(out)))
    except Exception as e:
        bad+=1; print("EXC", sym, alias, src, type(e).__name__, str(e)[:100])
print(len(seen), bad, time.time()-t)
