import cfg, copy
from dissect.cobaltstrike import beacon, c2, c2profile
bc = beacon.BeaconConfig(cfg.make())
print(bc.settings["SETTING_C2_RECOVER"], bc.settings["SETTING_C2_REQUEST"])
h1 = c2.C2Http(bc, rsa_private_key=cfg.KEY)
print(bc.settings["SETTING_C2_RECOVER"])
h2 = c2.C2Http(bc, aes_rand=b"A"*16)
print(bc.settings["SETTING_C2_RECOVER"], bc.settings_by_index[11])
p = c2profile.C2Profile.from_beacon_config(bc)
print(p.as_text())
