import io, struct, time
from dissect.cobaltstrike import beacon
def x1(b,k): return bytes(c^k for c in b)
blkA = struct.pack(">HHHH",1,1,2,8)+struct.pack(">HHHH",2,1,2,443)+b"\x00\x00"
for S in (7,16,8192):
    io.DEFAULT_BUFFER_SIZE=S
    for padded in (False, True):
        blk = blkA.ljust(4096,b"\x00") if padded else blkA
        raw = b"\x41"*20 + x1(blk,0x2e)
        t=time.time(); N=50
        for i in range(N):
            r = next(beacon.iter_beacon_config_blocks(io.BytesIO(raw)), None)
        a=(time.time()-t)/N
        t=time.time()
        for i in range(N):
            r = next(beacon.iter_beacon_config_blocks(io.BytesIO(raw), xordecode=False), None)
        b=(time.time()-t)/N
        t=time.time()
        for i in range(N):
            r = next(beacon.iter_beacon_config_blocks(io.BytesIO(raw[:20]), xordecode=True, all_xor_keys=True), None)
        c=(time.time()-t)/N
        print(S,padded,'found %.4f  noxordecode %.5f  notfound-allkeys(20B file) %.4f'%(a,b,c))
