import struct
from dissect.cobaltstrike import beacon
def tlv(i,t,v,l=None):
    return struct.pack(">HHH", i,t,len(v) if l is None else l)+v
blk = tlv(1,1,b"\x00\x08")+tlv(16,1,struct.pack(">H",2021))+tlv(17,1,struct.pack(">H",12))+tlv(18,1,struct.pack(">H",31))+tlv(75,3,b"abc")+tlv(0xffff,0,b"")+tlv(36,1,b"\x00\x03")+tlv(36,3,b"hash\x00")
c = beacon.BeaconConfig(blk+b"\x00\x00junk")
for s in c.settings_tuple: print(repr(s.index), s.index.name, s.index.value, s.type, s.length, s.value)
print(c.raw_settings)
print(c.settings)
print(c.raw_settings_by_index)
print(c.setting_enums, c.max_setting_enum)
try: print(c.killdate)
except Exception as e: print("killdate exc", type(e), e)
print(c.protocol, c.version)
c2 = beacon.BeaconConfig(tlv(1,1,b"\x00\x08")+tlv(40,2,struct.pack(">I",20251231)))
print(c2.killdate)
c3 = beacon.BeaconConfig(tlv(1,1,b"\x00\x03"))
print(c3.protocol)
c3 = beacon.BeaconConfig(tlv(1,1,b"\x00\x20"))
print(c3.protocol)
