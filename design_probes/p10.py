import io, pebuild, cfg
from dissect.cobaltstrike import pe, xordecode, beacon
blk = cfg.make().ljust(4096, b"\x00")
cfgx = bytes(b^0x2e for b in blk)
for arch in ("x86","x64"):
    img = pebuild.build_pe(arch, data=b"\x00"*64+cfgx, append=b"")
    f = io.BytesIO(img)
    print(arch, len(img), pe.find_mz_offset(f), pe.find_architecture(f), [hex(x) if x else x for x in pe.find_compile_stamps(f)], pe.find_magic_mz(f), pe.find_magic_pe(f), pe.find_stage_prepend_append(f))
    pre = b"\x90"*5
    f = io.BytesIO(pre+img+b"TAIL")
    print(' prepended', pe.find_mz_offset(f), pe.find_architecture(f), [hex(x) if x else x for x in pe.find_compile_stamps(f)], pe.find_magic_mz(f), pe.find_magic_pe(f), pe.find_stage_prepend_append(f))
    bc = beacon.BeaconConfig.from_bytes(pre+img)
    print(' from_bytes', bc.xorkey, bc.xorencoded, bc.architecture, bc.pe_compile_stamp, bc.pe_export_stamp, bc.version, bc.domains)
    enc = pebuild.xorencode(pre+img)
    xf = xordecode.XorEncodedFile.from_file(io.BytesIO(enc)); print(' xor nonce_offset', xf.nonce_offset, xf.read()== pre+img)
    bc = beacon.BeaconConfig.from_bytes(enc)
    print(' from_bytes xorenc', bc.xorkey, bc.xorencoded, bc.architecture, bc.pe_compile_stamp, bc.pe_export_stamp, bc.version)
# detection: marker only / size only / false candidate
img = pebuild.build_pe("x86", data=cfgx)
for name, kw in [("both", {}), ("size only", dict(stub=b"\xfc\xe8\x90\x90")), ("marker only", dict(trailer=b"XX")), ("neither", dict(stub=b"\xfc\x90", trailer=b"XX")),
                 ("false earlier marker, both", dict(stub=b"\xff\xff\xff\x90\xff\xff\xff")), ("false earlier marker, marker only", dict(stub=b"\xff\xff\xff\x90\xff\xff\xff", trailer=b"XX")),
                 ("stub 1020", dict(stub=b"\x90"*1017+b"\xff\xff\xff")), ("stub 1024", dict(stub=b"\x90"*1021+b"\xff\xff\xff")), ("stub 1025", dict(stub=b"\x90"*1022+b"\xff\xff\xff"))]:
    enc = pebuild.xorencode(img, **kw)
    want = len(kw.get("stub", b"\xfc\xe8\x90\x90\xe8\xd4\xff\xff\xff"))
    try:
        xf = xordecode.XorEncodedFile.from_file(io.BytesIO(enc)); print(name, 'nonce_offset', xf.nonce_offset, 'want', want, xf.read()==img)
    except ValueError as e: print(name, 'ValueError', 'want', want)
