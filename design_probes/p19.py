import itertools
from dissect.cobaltstrike import c2
def pct(b): return b"".join(bytes([c]) if (48<=c<=57 or 65<=c<=90 or 97<=c<=122 or c in b"-._~") else b"%%%02X"%c for c in b)
def ser_req(method, path, params, headers, body):
    q = b"&".join(pct(k)+b"="+pct(v) for k,v in params.items())
    line = method+b" "+path+(b"?"+q if params else b"")+b" HTTP/1.1"
    return line+b"\r\n"+b"".join(k+b": "+v+b"\r\n" for k,v in headers.items())+b"\r\n"+body
bad={}; n=0
paths=[b"/", b"/a", b"/a/b.c", b"/a-b_c~d", b"/%41", b"/a;b", b"/a=b", b"/a:b", b"/a@b", b"/a+b", b"//a/b", b"/a//b", b"/a?", b"*"]
pvals=[bytes([i]) for i in range(256)]+[b"a b", b"a+b", b"a=b&c", b"%41", b"\xff\xfe"]
hdrs=[{}, {b"Host": b"x"}, {b"A": b"b: c", b"B": b" lead", b"C": b"trail "}, {b"X-Y": b""}]
bodies=[b"", b"text", b"a\r\n\r\nb", b"\x00\x01", bytes(range(256))]
for path in paths:
  for hd in hdrs:
    for body in bodies:
      for params in [{}, {b"id": b"1"}]+[{b"k": v} for v in pvals]+[{v: b"1"} for v in pvals[:256:17]]+[{b"a": b"1", b"b": b"2"}]:
        n+=1
        raw = ser_req(b"GET", path, params, hd, body)
        try:
            r = c2.parse_raw_http(raw)
            got=(r.method, r.uri, r.params, r.headers, r.body)
        except Exception as e:
            got=(type(e).__name__,)
        exp=(b"GET", path, params, hd, body)
        if got!=exp:
            diffs = tuple(i for i in range(len(exp)) if len(got)<=i or got[i]!=exp[i])
            key=(diffs, path if 1 in diffs else None, tuple(params.items())[:1] if 2 in diffs else None, tuple(hd.items())[:1] if 3 in diffs else None)
            bad.setdefault(key,(raw[:80],got))
print(n,len(bad))
for k,v in bad.items():
    if v[1]!=("UnicodeEncodeError",): print(k,v)
