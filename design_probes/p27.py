"""Quick sanity of C02/C05/C18/C19/C20 oracles on the current tree (to catch oracle mistakes early)."""
import struct, itertools, datetime, hashlib, hmac, random
from dissect.cobaltstrike import beacon, c2, utils, version
import cfg
# ---- C02 duplicates / views
def tlv(i,t,v): return struct.pack(">HHH",i,t,len(v))+v
atoms=[(1,1,b"\x00\x08"),(2,1,b"\xff\xff"),(37,2,b"\xff\xff\xff\xff"),(9,3,b"UA\x00\x00"),(75,3,b"abc"),(0xffff,0,b""),(36,1,b"\x00\x03"),(36,3,b"h\x00"),(16,1,b"\x00\x02"),(255,3,b"")]
bad=0;n=0
for seq in itertools.product(atoms, repeat=3):
    for end in (b"", b"\x00\x00", b"\x00\x00junk", b"\x00"*50):
        blk=b"".join(tlv(*a) for a in seq)+end; n+=1
        bc=beacon.BeaconConfig(blk)
        got=[(s.index.value,s.type.value,s.length,s.value) for s in bc.settings_tuple]
        if got!=[(i,t,len(v),v) for i,t,v in seq]: bad+=1; print("tuple mismatch", seq, end, got); break
        # view agreement
        exp=collections_od={}
        for s_ in bc.settings_tuple:
            v=s_.value
            if s_.type.value==1: v=int.from_bytes(v[:2],"big")
            elif s_.type.value==2: v=int.from_bytes(v[:4],"big")
            exp[s_.index.value]=v
        if dict(bc.raw_settings_by_index)!=exp or list(bc.raw_settings_by_index)!=list(exp): bad+=1; print("view mismatch", seq)
        if list(bc.raw_settings.values())!=list(bc.settings_map("enum").values()): pass
print("C02", n, bad)
# ---- C05
for L in range(0,50):
    pt=bytes(range(L)); k=b"K"*16; h=b"H"*16
    p=c2.encrypt_packet(pt,k,h)
    assert p.signature==hmac.new(h,p.ciphertext,"sha256").digest()[:16]
    d=c2.decrypt_packet(p,k,h); pad=d[len(pt):]
    assert d[:len(pt)]==pt and 1<=len(pad)<=16 and set(pad)=={0x41} and len(d)%16==0,(L,d)
    for bit in range(8*len(p.ciphertext)):
        ct=bytearray(p.ciphertext); ct[bit//8]^=1<<(bit%8)
        try: c2.decrypt_packet(c2.EncryptedPacket(bytes(ct),p.signature),k,h); print("ACCEPTED tamper"); break
        except ValueError: pass
pk=[c2.encrypt_packet(bytes(l),b"K"*16,b"H"*16) for l in (0,1,15,16,17)]
for combo in itertools.product(pk, repeat=2):
    stream=b"".join(x.dumps() for x in combo)
    assert list(c2.ClientC2Data(output=stream).iter_encrypted_packets())==list(combo)
print("C05 ok")
# ---- C18 version parsing / tables
for tbl in (version.MAX_ENUM_TO_VERSION, version.PE_EXPORT_STAMP_TO_VERSION):
    prev=None
    for k in sorted(tbl):
        v=version.BeaconVersion(tbl[k])
        assert v.tuple and v.date, tbl[k]
        key=(v.tuple+(0,))[:3]
        if prev and (key<prev[0] or v.date<prev[1]): print("NON-MONOTONE", k, tbl[k], prev)
        prev=(key,v.date)
bad=0
for M,m,p in itertools.product(range(0,6),range(0,13),(None,0,1,10)):
    for mon in ("Jan","Feb","Mar","Apr","May","Jun","Jul","Aug","Sep","Oct","Nov","Dec"):
        for d in (1,9,10,28):
            s=f"Cobalt Strike {M}.{m}"+(f".{p}" if p is not None else "")+f" ({mon} {d:02d}, 2021)"
            v=version.BeaconVersion(s)
            et=(M,m) if p is None else (M,m,p)
            # patch 0 edge: m.group('patch') == '0' truthy string -> ok
            if v.tuple!=et or v.date!=datetime.datetime.strptime(f"{mon} {d:02d}, 2021","%b %d, %Y").date() or v.version_only!=".".join(map(str,et)): bad+=1; print("ver mismatch", s, v.tuple)
print("C18 versions bad", bad)
# ---- C20
assert utils.xor(b"",b"k")==b"" and utils.xor(b"abc",b"")==b"abc"
bad=0
for d in itertools.product((0,1,255), repeat=3):
    for kl in range(0,6):
        for k in itertools.product((0,1,255), repeat=kl):
            d_=bytes(d); k_=bytes(k)
            r=utils.xor(d_,k_)
            e=d_ if not any(k_) else bytes(c^k_[i%len(k_)] for i,c in enumerate(d_))
            if r!=e or utils.xor(r,k_)!=d_: bad+=1
print("C20 xor bad", bad)
for w,(pf,uf) in {1:(utils.p8,utils.u8),2:(utils.p16,utils.u16)}.items():
    for signed in (False,True):
        lo,hi=(-(1<<(8*w-1)),(1<<(8*w-1))-1) if signed else (0,(1<<(8*w))-1)
        for v in range(lo,hi+1):
            assert uf(pf(v,signed=signed),signed=signed)==v
for v in (0,1,127,128,255,256,65535,-1,-128,-129):
    try: print("auto", v, utils.pack(v,signed=v<0), utils.unpack(utils.pack(v,signed=v<0),signed=v<0))
    except Exception as e: print("auto", v, type(e).__name__)
try: utils.pack(128,signed=True)
except Exception as e: print("pack(128,signed) ->", type(e).__name__)
def ref_ck(t):
    if len(t)<4: return 0
    return sum(ord(c) for c in t if c!="/")%256
import re, string
bad=0;n=0
alpha="/aZ0.-\xff"
for L in range(0,6):
    for t in itertools.product(alpha, repeat=L):
        s="".join(t); n+=1
        if utils.checksum8(s)!=ref_ck(s) or utils.is_stager_x86(s)!=(ref_ck(s)==92) or utils.is_stager_x64(s)!=(ref_ck(s)==93 and len(s)==5 and s[0]=="/" and all(c in string.ascii_letters+string.digits for c in s[1:])): bad+=1; print("ck mismatch", repr(s))
print("C20 checksum", n, bad)
