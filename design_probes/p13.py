import struct, io, time, zipfile
import cfg, pebuild
from dissect.cobaltstrike import beacon, guardrails
def xorb(a,b): return bytes(x^y for x,y in zip(a,b))
def rep(key,n): return (key*(n//len(key)+1))[:n]
def ref_checksum(data):
    n=0
    for i,b in enumerate(data): n=(n+b*(i%3+1))%99999999
    return n
def lcg(n, seed=1):
    out=bytearray(); x=seed
    for _ in range(n):
        x=(x*1103515245+12345)&0x7fffffff; out.append((x>>16)&0xff)
    return bytes(out)
def guard(config_block, envkey, options=((6,1,b"\x00\x01"),), pad="zero", gpad="zero"):
    cb = config_block + (b"\x00"*(6144-len(config_block)) if pad=="zero" else lcg(6144-len(config_block)))
    assert len(cb)==6144
    masked = xorb(xorb(cb, rep(envkey,6144)), b"\x2e"*6144)
    g = b"".join(struct.pack(">HHH",o,t,len(v))+v for o,t,v in options)
    g += struct.pack(">HHH",9,2,4)+struct.pack(">I", ref_checksum(cb)+1) + b"\x00\x00"
    g += (b"\x00"*(2048-len(g)) if gpad=="zero" else lcg(2048-len(g),7))
    mg = xorb(xorb(g, masked[::-1][:2048]), b"\x8a"*2048)
    return masked+mg
# validate against the real sample: re-mask recovered config and compare to file bytes
zf = zipfile.ZipFile('/repo/tests/beacons/124552cf674b362e0c916ab79b9e7a56.bin.zip')
data = zf.read('124552cf674b362e0c916ab79b9e7a56.bin', pwd=b'dissect.cobaltstrike')
b = beacon.BeaconConfig.from_bytes(data); g=b.guardrails
cb = g.unmasked_beacon_config
masked = xorb(xorb(cb, rep(g.payload_xor_key,6144)), b"\x2e"*6144)
print('masked config matches file', masked == data[g.beacon_config_offset:g.beacon_config_offset+6144])
ug = g.unmasked_guard_config
mg = xorb(xorb(ug, masked[::-1][:2048]), b"\x8a"*2048)
print('masked guard matches file', mg == data[g.guard_config_offset:g.guard_config_offset+2048], hex(ref_checksum(cb)+1), hex(g.checksum))
blk = cfg.make()
for klen in (2,3,15,16,17,100,255,256):
    key = lcg(klen, 42+klen)
    for pad in ("zero","lcg"):
        area = guard(blk, key, pad=pad, gpad=pad)
        for pre in (0, 1, 5000):
            payload = lcg(pre, 3) + area + lcg(100, 9)
            t=time.time()
            try:
                bc = beacon.BeaconConfig.from_bytes(payload)
                ok = bc.guardrails and bc.guardrails.payload_xor_key==key and bc.guardrails.beacon_config_offset==pre and [ (s.index.value,s.value) for s in bc.settings_tuple]==[(s.index.value,s.value) for s in beacon.BeaconConfig(blk).settings_tuple]
                print(klen,pad,pre,'ok' if ok else ('MISMATCH', bc.guardrails and bc.guardrails.payload_xor_key), round(time.time()-t,2))
            except Exception as e: print(klen,pad,pre,type(e).__name__, str(e)[:80], round(time.time()-t,2))
