from Crypto.PublicKey import RSA
from Crypto.Cipher import PKCS1_v1_5
from dissect.cobaltstrike import c2
import struct, time
t=time.time(); priv = RSA.generate(1024); print('gen', time.time()-t)
pub = priv.public_key()
def enc(pt): return PKCS1_v1_5.new(pub).encrypt(pt)
for pt in [b"hello", b"", b"\x00\x00\xbe\xef"+b"\x00"*10, struct.pack(">II",0xBEEF, 0)+b"A"*51, struct.pack(">II",0xBEEF, 10)+b"A"*51, struct.pack(">II",0xBEEF, 100)+b"A"*51, struct.pack(">II",0xBEE0, 51)+b"A"*51, struct.pack(">II",0xBEEF, 51)+b"A"*51+b"extra"]:
    try:
        m = c2.decrypt_metadata(enc(pt), priv); print('ok', m)
    except Exception as e: print(type(e).__name__, e)
for blob in [b"", b"\x00"*128, b"\xff"*128, b"\x01"*127, b"\x01"*129]:
    try:
        m = c2.decrypt_metadata(blob, priv); print('ok', m)
    except Exception as e: print(type(e).__name__, e)
m = c2.BeaconMetadata(magic=0xBEEF, info=b"x"*58)
t=time.time()
blob = c2.encrypt_metadata(m, pub); d = c2.decrypt_metadata(blob, priv); print(time.time()-t, d.dumps()==m.dumps(), m.size)
try:
    c2.encrypt_metadata(c2.BeaconMetadata(magic=0xBEEF, info=b"x"*59), pub)
except Exception as e: print(type(e).__name__, e)
