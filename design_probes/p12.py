import io, struct
b = io.BytesIO(b"abcdef"); b.seek(2)
try: print(b.seek(-4,1))
except Exception as e: print(type(e).__name__, e)
from dissect.cobaltstrike import beacon
def ex(code, off=0, mod=b"", fn=b""):
    if code in (6,7): return bytes([code])+struct.pack(">H",off)+struct.pack(">I",len(mod)+1)+mod+b"\x00"+struct.pack(">I",len(fn)+1)+fn+b"\x00"
    return bytes([code])
data = ex(1)+ex(6,0x10,b"ntdll",b"RtlUserThreadStart")+ex(7,0,b"kernel32.dll",b"LoadLibraryA")+ex(8)+ex(5)+ex(4)+ex(3)+ex(2)+b"\x00"
print(beacon.parse_execute_list(data))
print(beacon.parse_process_injection_transform_steps(struct.pack(">I",2)+b"\x90\x90"+struct.pack(">I",0)))
print(beacon.parse_gargle(struct.pack("<IIIIII",0x1000,0x2000,0,0,0x3000,0x3100)))
print(beacon.parse_pivot_frame(struct.pack(">H",6)+b"ab"+b"\x00"*4+b"junk"))
print(beacon.parse_transform_binary(struct.pack(">IIII",14,7,0,3)))
try: print(beacon.parse_execute_list(b"\x09\x01"))
except Exception as e: print(type(e).__name__, e)
print(repr(beacon.InjectExecutor(9).name))
